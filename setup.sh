#!/bin/bash
# Offline setup: verify (and if needed install from the local wheelhouse) what the checks import.
set -e
cd "$(dirname "$0")"
if ! /venv/bin/python -c "import hypothesis" 2>/dev/null; then
  /venv/bin/pip install --no-index --find-links /opt/veriftools/wheels hypothesis
fi
/venv/bin/python - <<'PY'
import hypothesis, ase, numpy, scipy, networkx
import sys
sys.path.insert(0, "/repo/src")
import quansino
assert tuple(int(x) for x in hypothesis.__version__.split(".")[:2]) >= (6, 100), hypothesis.__version__
print("setup ok: hypothesis", hypothesis.__version__, "ase", ase.__version__, "numpy", numpy.__version__, "quansino", quansino.__file__)
PY
chmod +x check tools/*.py tools/*.sh 2>/dev/null || true
mkdir -p evidence replays
