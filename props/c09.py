"""C09 - move scheduling honours interval, probability and minimum count.

Generated tables of inert probe moves (names, interval 1-5, float weight in {0} U (0,10], minimum count
0-3, cycles per step 1-12 with sum of minimum counts <= cycles).  The schedule is read from
`list(mc.yield_moves())` at chosen step numbers and from real `mc.run()` via `move_history`.
Oracle: a counting model per step; over thousands of steps of one table, the freely chosen slots are
compared with Multinomial(w / sum w) separately for each set of due entries (chi-square, alpha 1e-7)
and consecutive free slots are tested for independence; `add_move` must refuse over-commitment.
"""
from __future__ import annotations

import warnings
from collections import Counter

import numpy as np
from ase import Atoms
from hypothesis import strategies as st
from scipy import stats

from vlib import hyp
from vlib.gen import fl

ID = "C09"
LEVEL = "exploration"
TECHNIQUE = "property-based testing (Hypothesis) of generated move tables against a counting model of the schedule, plus chi-square tests of the free-slot frequencies at fixed alpha"
RULE = (
    "per-step part: (table of 1-6 entries, cycles, seed, step numbers 0..40); non-trivial = at least two due entries with different positive weights and a forced entry, "
    "or an entry whose interval makes it not due on a probed step. statistical part: one table, >= 3000 steps; non-trivial = at least one due-set with >= 2 positive weights "
    "and >= 200 free picks. distinct = (intervals, weights rounded, minimum counts, cycles)."
)
ASSUMPTIONS = [
    "weights are floats (the documented type); among the entries due at a probed step at least one weight is positive, or nothing is due",
    "statistical decisions use chi-square tests at alpha = 1e-7 per test (false alarm < 1e-5 per run)",
]
LEVEL_TEXT = (
    "Bounded exploration of generated tables with an exact counting oracle for every step and a goodness-of-fit test for the free slots; the schedule of a step is a "
    "pure function of (table, step number, generator), so thousands of tables x steps are cheap."
)
LEVEL_NOTE = "Trusted: scipy.stats chi-square; the probe moves (return False, touch nothing)."
DESIGN_REF = "DESIGN.md section 3, C09"


WORDS = ["zeta", "alpha", "mu", "beta", "omega", ""]  # the empty string is a name like any other


def name_of(case, i):
    """Entry names in a generated order (registration order is deliberately not alphabetical)."""
    if case.get("default_names") and i < 2:
        return ["default_displacement_move", "default_cell_move"][i]
    order = case.get("name_order") or list(range(len(WORDS)))
    return WORDS[order[i]]


def index_of(case, name):
    if name in ("default_displacement_move", "default_cell_move"):
        return ["default_displacement_move", "default_cell_move"].index(name)
    order = case.get("name_order") or list(range(len(WORDS)))
    return order.index(WORDS.index(name))


def make_mc(case, with_calc=False):
    from quansino.mc.core import MonteCarlo
    from quansino.mc.criteria import BaseCriteria
    from quansino.moves.core import BaseMove

    class Probe(BaseMove):
        def __init__(self):
            self.calls = 0

        def __call__(self, context):
            self.calls += 1
            return False

        def to_dict(self):
            return {"name": "Probe"}

    class Never(BaseCriteria):
        def evaluate(self, context):
            return False

    driver = case.get("driver", "MonteCarlo")
    scale = float(case.get("wscale", 1.0))
    with warnings.catch_warnings():
        warnings.simplefilter("ignore")
        if driver == "MonteCarlo":
            atoms = Atoms("H", positions=[[0, 0, 0]])
            mc = MonteCarlo(atoms, max_cycles=case["cycles"], seed=case["seed"])
        else:
            from vlib.calcs import FastCalc

            atoms = Atoms("H3", positions=[[1, 1, 1], [3, 3, 3], [1, 3, 2]], cell=[6, 6, 6], pbc=True)
            atoms.calc = FastCalc("ideal", {})
            if driver == "Canonical":
                from quansino.mc.canonical import Canonical

                mc = Canonical(atoms, temperature=300.0, max_cycles=case["cycles"], seed=case["seed"])
            elif driver == "Isobaric":
                from quansino.mc.isobaric import Isobaric

                mc = Isobaric(atoms, temperature=300.0, pressure=0.01, max_cycles=case["cycles"], seed=case["seed"])
            else:
                from quansino.mc.isotension import Isotension

                mc = Isotension(atoms, temperature=300.0, pressure=0.01, max_cycles=case["cycles"], seed=case["seed"])
        for i, (interval, weight, minimum) in enumerate(case["table"]):
            mc.add_move(Probe(), criteria=Never(), name=name_of(case, i), interval=interval, probability=float(weight) * scale, minimum_count=minimum)
    return mc


@st.composite
def table_st(draw, stat=False):
    n = draw(st.integers(1, 6))
    cycles = draw(st.integers(1, 12)) if (stat or draw(st.integers(0, 9)) > 0) else 0  # 0 cycles: a step attempts nothing
    budget = cycles
    table = []
    nothing_due_class = (not stat) and draw(st.integers(0, 7)) == 0
    for i in range(n):
        if i == 0 and not nothing_due_class:
            interval, weight = 1, draw(fl(0.05, 10))
        else:
            interval = draw(st.integers(2 if nothing_due_class else 1, 5))
            weight = draw(st.one_of(st.just(0.0), fl(0.05, 10), fl(0.05, 10)))
            if nothing_due_class and weight == 0.0:
                weight = 1.0
        minimum = draw(st.integers(0, min(3, budget)))
        if stat and minimum > max(0, cycles - 2 - sum(t[2] for t in table)):
            minimum = 0
        budget -= minimum
        table.append([interval, weight, minimum])
    case = {"table": table, "cycles": cycles, "seed": draw(st.integers(0, 2 ** 32)), "nothing_due_class": nothing_due_class,
            "name_order": list(draw(st.permutations(list(range(len(WORDS)))))),
            # all weights times a common factor: only their ratios matter (tiny and huge scales included)
            "wscale": draw(st.sampled_from([1.0, 1.0, 1.0, 1e-9, 1e-12, 1e-200, 1e150])),
            # the scheduler is the base driver's; ensembles inherit it (entries may use the ensembles' default names)
            "driver": draw(st.sampled_from(["MonteCarlo", "MonteCarlo", "Canonical", "Isobaric", "Isotension"])),
            "default_names": draw(st.booleans())}
    if stat:
        case["steps"] = draw(st.sampled_from([3000, 4000]))
    else:
        case["probe_steps"] = draw(st.lists(st.one_of(st.integers(0, 40), st.integers(0, 40), st.sampled_from([60, 120, 10 ** 6, 2 ** 31, 2 ** 31 + 7, 2 ** 40 + 60])), min_size=1, max_size=8))
        case["via_run"] = draw(st.booleans())
        case["new_interval"] = draw(st.integers(1, 5))
        # a weight re-tuned on the live table (documented attribute of the table entry) applies from the next step on
        case["reweight"] = draw(st.one_of(st.none(), st.tuples(st.integers(0, n - 1), st.one_of(st.just(0.0), fl(0.05, 10)))))
    return case


def check_step(case, step, names, where):
    table, cycles = case["table"], case["cycles"]
    due = [i for i, (iv, w, mn) in enumerate(table) if step % iv == 0]
    labels = []
    if not due:
        if names:
            return ("scheduled-when-nothing-due", f"{where}: step {step}: nothing is due but {names} were scheduled"), labels
        return None, ["nothing-due"]
    if any(table[i][1] > 0 for i in due) is False:
        return None, ["all-zero-weights-skipped"]
    if len(names) != cycles:
        return ("cycle-count", f"{where}: step {step}: {len(names)} moves scheduled for max_cycles={cycles}"), labels
    cnt = Counter(names)
    cnt = Counter({f"m{index_of(case, nm)}": c for nm, c in cnt.items()})
    for nm, c in cnt.items():
        i = int(nm[1:])
        if i not in due:
            return ("not-due-scheduled", f"{where}: step {step}: {nm} (interval {table[i][0]}) scheduled although not due"), labels
    for i in due:
        iv, w, mn = table[i]
        c = cnt.get(f"m{i}", 0)
        if c < mn:
            return ("minimum-count", f"{where}: step {step}: m{i} scheduled {c} times, minimum count {mn}"), labels
        if w == 0.0 and c != mn:
            return ("zero-weight-chosen", f"{where}: step {step}: weight-0 entry m{i} scheduled {c} times (minimum count {mn})"), labels
    if len(due) < len(table):
        labels.append("some-not-due")
    if len({table[i][1] for i in due if table[i][1] > 0}) >= 2 and any(table[i][2] > 0 for i in due):
        labels.append("weights+forced")
    return None, labels


def run_steps(case):
    labels = ["per-step"]
    key = f"{case['table']}|{case['cycles']}"
    try:
        mc = make_mc(case)
    except ValueError as exc:
        return {"labels": labels, "nontrivial": True, "violation": {"kind": "add_move-refused-valid-table", "detail": f"table {case['table']} cycles {case['cycles']}: {exc}"}}
    nontrivial = False
    with warnings.catch_warnings():
        warnings.simplefilter("ignore")
        for step in case["probe_steps"]:
            mc.step_count = step
            names = [str(n) for n in mc.yield_moves()]
            v, labs = check_step(case, step, names, "yield_moves")
            labels += labs
            nontrivial = nontrivial or bool(set(labs) & {"some-not-due", "weights+forced"})
            if v:
                return {"labels": labels, "nontrivial": True, "key": key, "violation": {"kind": v[0], "detail": f"table(interval,weight,min)={case['table']} cycles={case['cycles']}: {v[1]}"}}
        labels.append("driver:" + case.get("driver", "MonteCarlo") + (":default-names" if case.get("default_names") else ""))
        if case.get("wscale", 1.0) != 1.0:
            labels.append("weights-rescaled")
        if case.get("reweight") is not None:
            i_rw, w_rw = case["reweight"]
            new_table = [list(t) for t in case["table"]]
            new_table[i_rw][1] = float(w_rw)
            case2 = dict(case, table=new_table)
            mc.moves[name_of(case, i_rw)].probability = float(w_rw) * float(case.get("wscale", 1.0))
            labels.append("weight-retuned-on-live-table")
            for step in case["probe_steps"]:
                due2 = [t for t in new_table if step % t[0] == 0]
                if due2 and not any(t[1] > 0 for t in due2):
                    continue  # outside the stated domain (due weights all zero)
                mc.step_count = step
                names = [str(n) for n in mc.yield_moves()]
                v, labs = check_step(case2, step, names, "yield_moves after re-tuning a weight")
                if v:
                    return {"labels": labels, "nontrivial": True, "key": key, "violation": {"kind": v[0] + ":retuned", "detail": f"table(interval,weight,min)={new_table} (weight of m{i_rw} was {case['table'][i_rw][1]}) cycles={case['cycles']}: {v[1]}"}}
            mc.moves[name_of(case, i_rw)].probability = float(case["table"][i_rw][1]) * float(case.get("wscale", 1.0))
        if case["via_run"]:
            mc2 = make_mc(case)
            labels.append("via-run")
            for step in range(0, 7):
                if step % 2:
                    mc2.run(1)
                else:
                    for st_ in mc2.irun(1):  # fully iterated: each yielded step is itself a generator of moves
                        for _ in st_:
                            pass
                names = [h[0] for h in mc2.move_history]
                v, labs = check_step(case, step, names, "run/move_history")
                if v:
                    return {"labels": labels, "nontrivial": True, "key": key, "violation": {"kind": v[0] + ":run", "detail": f"table={case['table']} cycles={case['cycles']}: {v[1]}"}}
                if any(h[1] is not None for h in mc2.move_history):
                    return {"labels": labels, "nontrivial": True, "violation": {"kind": "history-verdict", "detail": "probe move returning False recorded with a verdict"}}
        # weights re-tuned while the step's generator is being consumed ("dynamic change of the probabilities between
        # moves"): a due entry parked at weight 0 gets all the weight after the first slot -> every later free slot is it
        if case["cycles"] >= 3:
            seen = []
            n0, n1 = name_of(case, 0), name_of(case, 1)
            try:
                mc3 = make_mc(dict(case, table=[[1, 1.0, 0], [1, 0.0, 0], [2, 0.0, 0]]))
                mc3.step_count = 0
                for k, nm in enumerate(mc3.yield_moves()):
                    seen.append(str(nm))
                    if k == 0:
                        mc3.moves[n0].probability, mc3.moves[n1].probability = 0.0, 1.0 * float(case.get("wscale", 1.0))
            except Exception as exc:
                return {"labels": labels, "nontrivial": True, "key": key, "violation": {"kind": "in-step-reweight:raises", "detail": f"cycles={case['cycles']}: after {seen} the weights were swapped between two moves (all weight to the entry parked at 0): {type(exc).__name__}: {exc}"}}
            labels.append("weights-swapped-inside-a-step")
            if seen[:1] != [n0] or any(x != n1 for x in seen[1:]) or len(seen) != case["cycles"]:
                return {"labels": labels, "nontrivial": True, "key": key, "violation": {"kind": "in-step-reweight", "detail": f"cycles={case['cycles']}: entry {n0!r} had all the weight for the first slot, then {n1!r} (parked at 0) got it all: scheduled {seen}"}}
        # over-commit guard
        total_min = sum(t[2] for t in case["table"])
        room = case["cycles"] - total_min
        from quansino.moves.core import BaseMove

        class P(BaseMove):
            def __init__(self):
                pass

            def __call__(self, context):
                return False

        from quansino.mc.criteria import BaseCriteria

        class N(BaseCriteria):
            def evaluate(self, context):
                return False

        try:
            mc.add_move(P(), criteria=N(), name="overcommit", minimum_count=room + 1, interval=case.get("new_interval", 1))
            return {"labels": labels, "nontrivial": True, "key": key, "violation": {"kind": "overcommit-accepted", "detail": f"add_move accepted minimum_count={room + 1} (interval {case.get('new_interval', 1)}) with {total_min} already committed of {case['cycles']} cycles, table {case['table']}"}}
        except ValueError:
            pass
        try:
            mc.add_move(P(), criteria=N(), name="fits", minimum_count=room, interval=case.get("new_interval", 1))
        except ValueError as exc:
            return {"labels": labels, "nontrivial": True, "key": key, "violation": {"kind": "fitting-move-refused", "detail": f"add_move refused minimum_count={room} with {total_min} committed of {case['cycles']}: {exc}"}}
    return {"labels": sorted(set(labels)), "nontrivial": nontrivial, "key": key, "violation": None}


def run_stat(case):
    labels = ["statistical"]
    table, cycles = case["table"], case["cycles"]
    mc = make_mc(case)
    free = {}  # due-set -> Counter of free picks
    pairs = {}
    with warnings.catch_warnings():
        warnings.simplefilter("ignore")
        for step in range(case["steps"]):
            mc.step_count = step
            names = [str(n) for n in mc.yield_moves()]
            v, _ = check_step(case, step, names, "yield_moves")
            if v:
                return {"labels": labels, "nontrivial": True, "violation": {"kind": v[0], "detail": f"table={table} cycles={cycles}: {v[1]}"}}
            due = tuple(i for i, (iv, w, mn) in enumerate(table) if step % iv == 0)
            if not due:
                continue
            cnt = Counter(f"m{index_of(case, nm)}" for nm in names)
            c = free.setdefault(due, Counter())
            for i in due:
                c[i] += cnt.get(f"m{i}", 0) - table[i][2]
            # consecutive pairs of slots in steps without forced entries are all free picks
            if all(table[i][2] == 0 for i in due):
                pc = pairs.setdefault(due, Counter())
                idx = [f"m{index_of(case, nm)}" for nm in names]
                for a, b in zip(idx[:-1:2], idx[1::2]):
                    pc[(a, b)] += 1
    nontrivial = False
    keys = []
    for due, c in free.items():
        w = np.array([table[i][1] for i in due], dtype=float)
        tot = sum(c.values())
        pos = w > 0
        if pos.sum() < 2 or tot < 200:
            continue
        obs = np.array([c[i] for i in due], dtype=float)
        if np.any(obs[~pos] != 0):
            return {"labels": labels, "nontrivial": True, "violation": {"kind": "zero-weight-chosen", "detail": f"table={table}: weight-0 entry chosen freely for due set {due}"}}
        exp = tot * w[pos] / w[pos].sum()
        if exp.min() < 5:
            continue
        nontrivial = True
        keys.append(f"{table}|{cycles}|{due}")
        chi, p = stats.chisquare(obs[pos], exp)
        if p < 1e-7:
            return {"labels": labels, "nontrivial": True, "keys": keys,
                    "violation": {"kind": "free-slot-frequencies", "detail": f"table(interval,weight,min)={table} cycles={cycles} due set {due}: free picks {obs[pos].tolist()} vs expected {np.round(exp, 1).tolist()} (chi2={chi:.1f}, p={p:.2e})"}}
    for due, pc in pairs.items():
        ids = [f"m{i}" for i in due if table[i][1] > 0]
        if len(ids) < 2:
            continue
        m = np.array([[pc[(a, b)] for b in ids] for a in ids], dtype=float)
        if m.sum() < 400 or (m.sum(0).min() * m.sum(1).min() / m.sum()) < 5:
            continue
        chi, p, _, _ = stats.chi2_contingency(m)
        labels.append("independence-tested")
        if p < 1e-7:
            return {"labels": labels, "nontrivial": True, "keys": keys, "violation": {"kind": "free-slots-dependent", "detail": f"table={table} due set {due}: consecutive free slots are not independent (p={p:.2e}), counts {m.tolist()}"}}
    return {"labels": labels, "nontrivial": nontrivial, "keys": keys, "violation": None, "weight": case["steps"]}


PARTS = {"steps": (lambda: table_st(False), run_steps), "stat": (lambda: table_st(True), run_stat)}


def plan(tier):
    if tier == "quick":
        return [{"part": "steps", "shards": 8, "budget": {"n_examples": 1500}}, {"part": "stat", "shards": 8, "budget": {"n_examples": 30}}]
    return [{"part": "steps", "shards": 8, "budget": {"n_examples": 30000}}, {"part": "stat", "shards": 8, "budget": {"n_examples": 600}}]


def run_part(part, seed, shard, nshards, budget):
    strat, fn = PARTS[part]
    return hyp.search(strat(), fn, budget["n_examples"], seed, part, skip_zero=(part == "stat"))


def replay(part, case):
    return PARTS[part][1](case)
