"""C04 - energies used for acceptance belong to the configuration they describe.

Same state machine skeleton as C03 with a different invariant set and the calculator style as an
extra dimension (result-caching / stateless / per-atom internal state ModelCalc, ASE EMT and
LennardJones), optional logger.  After every trial the reported energy, the reference energy and
the remembered positions/cell are compared with a from-scratch evaluation on `atoms.copy()`, and
the number of `calculate()` calls is compared with an arithmetic model.
"""
from __future__ import annotations

import numpy as np

from vlib import hyp, mcmachine as M
from vlib import systems as S
from vlib.calcs import model_energy_forces

ID = "C04"
LEVEL = "exploration"
TECHNIQUE = "stateful property-based testing (Hypothesis RuleBasedStateMachine): accept/reject/fail histories x calculator styles; differential oracle = fresh calculator on atoms.copy() plus an evaluation-count model"
RULE = (
    "Each example = scenario (ensemble, atoms, calculator style in {caching, stateless, per-atom-state ModelCalc, EMT, LennardJones}, "
    "optional logger, 1-3 table entries) + up to N scripted trials. Non-trivial = at least one rejection followed by a further trial "
    "with a result-caching or per-atom-state calculator; distinct = distinct (ensemble, calculator style, logger, table shape, verdict string prefix)."
)
ASSUMPTIONS = [
    "'all ASE-conformant calculators' is represented by five calculator styles",
    "energy comparison tolerance 1e-9*max(1,|E|) (EMT/LJ depend on neighbour-list history at 1e-15); positions/cell compared bitwise",
    "evaluation accounting is asserted for the counting ModelCalc styles 'caching' and 'peratom' only, and not for steps containing Hamiltonian moves",
    "a trial that reaches its criteria with the reference configuration unchanged (fully constrained displacement) legitimately costs no evaluation",
]
LEVEL_TEXT = (
    "Bounded exploration of histories with a differential oracle that shares nothing with quansino's caching: a fresh calculator on a copy "
    "of the atoms after every trial, and an arithmetic model of how many calculate() calls the history may spend. Stale caches, missed "
    "resynchronisation after a revert and hidden recomputations all become visible per step."
)
LEVEL_NOTE = "Trusted: ASE Calculator.check_state/compare_atoms semantics, the analytic model energies, ASE EMT/LJ as representatives of per-atom-state calculators."
DESIGN_REF = "DESIGN.md section 3, C04"

PERATOM = ("peratom", "emt", "lj")


class C04Machine(M.MCMachine):
    PROP = ID

    def on_built(self):
        self.style = self.scn["calc"]
        self.counting = self.style in ("caching", "peratom", "smeared")
        self.first_step_done = False
        self.verdicts = ""
        self.nontriv = False
        self.reject_seen = False
        self.step_changed = 0
        self.step_has_hmc = False
        self.c0 = None
        for c in self.scn["atoms"]["constraints"]:
            self.labels.add("constraint:" + c["kind"])
        self.gc_excl = bool(self.scn.get("exclude_gc_peratom_reject") and self.scn["ensemble"] == "GrandCanonical" and self.style in PERATOM)
        if self.scn.get("logger"):
            self.labels.add("logger")
        for cr in self.info["criteria"]:
            cr.on_evaluate = self._on_evaluate

    def adjust(self, name, outcome, direction):
        if self.gc_excl and outcome != "accept" and any(hasattr(m, "to_delete_label") for m in self.elementary(name)):
            self.excluded_known += 1
            return "accept", direction
        return outcome, direction

    def _on_evaluate(self, context):
        at = context.atoms
        if len(at) != len(context.last_positions):
            self.step_changed += 1
            return
        d = float(np.max(np.abs(at.positions - context.last_positions))) if len(at) else 0.0
        if hasattr(context, "last_cell"):
            d = max(d, float(np.max(np.abs(at.cell.array - np.asarray(context.last_cell)))))
        if d == 0.0:
            return
        if d < 1e-12:
            # change at rounding level (e.g. a whole-system translation undone by FixCom): whether the
            # calculator's 1e-15 comparison sees it is not determined -> this step is not accounted
            self.step_ambiguous = True
            return
        self.step_changed += 1

    def fresh_energy(self):
        if self.style in ("emt", "lj"):
            cp = self.atoms.copy()
            cp.calc = M.fresh_calc_like(self.style, self.scn["atoms"])
            return cp.get_potential_energy()
        p = self.info["calc_params"]
        e = model_energy_forces("pair", self.atoms.positions, self.atoms.cell.array, self.atoms.numbers, p)[0]
        # energy-bearing constraints (Hookean) contribute to atoms.get_potential_energy(): add their term from ASE itself
        for c in self.atoms.constraints:
            if hasattr(c, "adjust_potential_energy"):
                e += c.adjust_potential_energy(self.atoms)
        return e

    def before_move(self, name):
        if self.c0 is None and self.counting:
            # first yield of this step: validate_simulation already ran
            self.c0 = self.atoms.calc.n_calculate - (0 if self.first_step_done else 1)
        entry = self.entry_expr(name)
        if any(l["t"] == "hmc" for l in S.expr_leaves(entry)):
            self.step_has_hmc = True
        return None

    def after_move(self, pre, name, verdict):
        key = {True: "A", False: "R", None: "F"}.get(verdict, "?")
        self.verdicts += key
        if self.reject_seen and self.style != "stateless":
            self.nontriv = True
        if verdict is False:
            self.reject_seen = True
            self.labels.add("rejection:" + self.style)
        entry = self.entry_expr(name)
        where = f"after a {'accepted' if verdict else 'rejected' if verdict is False else 'failed'} trial of {name} ({self.scn['ensemble']}, calc={self.style})"

        def reported():
            return self.atoms.get_potential_energy()

        e_rep = self.guarded("energy-after-trial", reported)
        e_ref = self.fresh_energy()
        if not np.isfinite(e_ref):
            self.labels.add("non-finite-energy-skipped")  # coinciding atoms under EMT/LJ: nothing to compare
            return
        tol = 1e-9 * max(1.0, abs(e_ref))
        if not abs(e_rep - e_ref) <= tol:
            self.fail(f"stale-energy:{key}", f"{where}: atoms.get_potential_energy()={e_rep!r} but a fresh evaluation of the current configuration gives {e_ref!r}")
            return
        ctx = self.mc.context
        e_last = ctx.last_potential_energy
        if not abs(e_last - e_ref) <= tol:
            self.fail(f"stale-reference-energy:{key}", f"{where}: context.last_potential_energy={e_last!r} but the current configuration has energy {e_ref!r}")
            return
        if ctx.last_positions.shape != self.atoms.positions.shape or not np.array_equal(ctx.last_positions, self.atoms.positions):
            self.fail(f"stale-positions:{key}", f"{where}: context.last_positions differ from atoms.positions")
            return
        if hasattr(ctx, "last_cell") and not np.array_equal(np.asarray(ctx.last_cell), self.atoms.cell.array):
            self.fail(f"stale-cell:{key}", f"{where}: context.last_cell differs from atoms.cell")
            return

    def after_step(self):
        if self.counting and self.c0 is not None and not self.step_has_hmc and not getattr(self, "step_ambiguous", False):
            spent = self.atoms.calc.n_calculate - self.c0
            expected = (0 if self.first_step_done else 1) + self.step_changed
            self.labels.add("accounted-step")
            if spent != expected:
                self.fail("evaluation-count:" + ("more" if spent > expected else "fewer"),
                          f"{self.scn['ensemble']} calc={self.style} logger={self.scn.get('logger')}: step spent {spent} calculate() calls, model allows {expected} "
                          f"(initial reference {0 if self.first_step_done else 1} + {self.step_changed} trials that reached their criteria with a changed configuration); verdicts so far {self.verdicts}")
        self.first_step_done = True
        self.step_changed = 0
        self.step_has_hmc = False
        self.step_ambiguous = False
        self.c0 = None

    def is_nontrivial(self):
        return getattr(self, "nontriv", False)

    def distinct_key(self):
        if self.mc is None:
            return None
        from props.c03 import shape

        return "|".join([self.scn["ensemble"], self.style, str(self.scn.get("logger")), ",".join(shape(e) for e in self.scn["entries"]), self.verdicts[:6]])


def scenario_strategy(known_active, styles):
    exclude = set()
    if "composite-multi-exchange" in known_active:
        exclude.add("multi-exchange")
    flag = "gc-revert-peratom-calculator" in known_active
    return M.scenario(calc_styles=styles, logger=True, exclude=tuple(exclude), extra_arrays=False, constraints=True, energy_constraints=True).map(
        lambda s: dict(s, exclude_gc_peratom_reject=flag))


def _scn(case):
    return case["log"][0]["args"]["scn"] if case.get("log") else {}


KNOWN = {
    "composite-multi-exchange": {
        "text": "composite entry in which an exchange move is followed by another label-bearing move acts with stale atom numbering (see C03)",
        "match": lambda part, kind, case: any(M.exchange_then_labelled(e) for e in _scn(case).get("entries", [])),
    },
    "gc-revert-peratom-calculator": {
        "text": "GrandCanonical.revert_state hands the calculator a copy of the restored atoms with the cached results: calculators that size internal per-atom state only when "
                "'numbers' changes (ASE EMT, LennardJones idiom) raise on the next evaluation after a rejected insertion/deletion",
        "match": lambda part, kind, case: _scn(case).get("ensemble") == "GrandCanonical" and _scn(case).get("calc") in PERATOM and kind.startswith("exception:"),
    },
}


def plan(tier):
    if tier == "quick":
        return [
            {"part": "model-calcs", "shards": 10, "budget": {"n_examples": 250, "steps": 20}},
            {"part": "ase-calcs", "shards": 6, "budget": {"n_examples": 60, "steps": 15}},
        ]
    return [
        {"part": "model-calcs", "shards": 10, "budget": {"n_examples": 5000, "steps": 40}},
        {"part": "ase-calcs", "shards": 6, "budget": {"n_examples": 1200, "steps": 30}},
    ]


def run_part(part, seed, shard, nshards, budget):
    styles = ("caching", "smeared", "stateless", "peratom") if part == "model-calcs" else ("emt", "lj")  # smeared: free_energy != energy
    strat = scenario_strategy(set(budget.get("known_active", [])), styles)
    return hyp.run_machine(lambda sink: M.specialise(C04Machine, sink, strat), budget["n_examples"], budget["steps"], seed, part)


def replay(part, case):
    return M.replay_log(C04Machine, case)
