"""C20 - drivers use custom moves and criteria only through the documented protocol.

State machine per driver (MonteCarlo, Canonical, HamiltonianCanonical, Isobaric, Isotension,
GrandCanonical): the move table holds 1-3 *bare* user moves/criteria (plain `object` subclasses defined
here, registered by name, implementing exactly the protocol methods), optionally mixed with a shipped
ExchangeMove / CellMove entry so that atom count and cell really change.  The bare objects log every
attribute the outside world reads or writes on them.
"""
from __future__ import annotations

import warnings

import numpy as np
from ase import Atoms
from hypothesis import strategies as st
from hypothesis.stateful import initialize, rule

from vlib import hyp, mcmachine as M
from vlib.calcs import ModelCalc
from vlib.gen import fl

ID = "C20"
LEVEL = "exploration"
TECHNIQUE = "stateful property-based testing (Hypothesis RuleBasedStateMachine) with attribute-access-logging bare protocol objects and a notification model keyed by a harness identity array"
RULE = (
    "Each example = (driver in the six MC drivers, 1-3 bare user move/criteria pairs, optional shipped ExchangeMove (GrandCanonical) or CellMove "
    "(Isobaric/Isotension) entry) + up to N rules: trial of a user entry with a scripted result from {True,1,'x',[0],False,0,None,'',[]} and scripted verdict, "
    "trial of the shipped entry (random strain or exactly volume-preserving shear) with scripted verdict, replacement of a user move under its existing name, serialisation round-trip; user moves compare equal by value. Non-trivial = at least one accepted exchange or cell trial happened while a bare "
    "move was in the table and both a truthy and a falsy user result occurred; distinct = (driver, table, result kinds, verdict string prefix)."
)
ASSUMPTIONS = [
    "allowed surface = protocol method names (__call__, evaluate, on_atoms_changed, on_cell_changed, to_dict, from_dict) plus dunder names",
    "empty on_atoms_changed([], []) calls after non-exchange acceptances (sent by the shipped GrandCanonical driver) are allowed by the statement and ignored",
    "user verdicts are booleans; user move results are the listed truthy/falsy values",
]
LEVEL_TEXT = (
    "Bounded exploration of histories in every MC driver with user components that inherit from nothing in the package and record every attribute access; "
    "the oracle is the access log, the move_history entry, the notification log versus the harness' own record of accepted exchange/cell trials, and a "
    "JSON round-trip of the simulation dictionary."
)
LEVEL_NOTE = "Trusted: Python attribute-access hooks (__getattribute__/__setattr__), ASE JSON encoder, Hypothesis."
DESIGN_REF = "DESIGN.md section 3, C20"

PROTOCOL = {"__call__", "evaluate", "on_atoms_changed", "on_cell_changed", "to_dict", "from_dict"}
RESULTS = [True, 1, "x", [0], False, 0, None, "", [], np.bool_(True), np.int64(2), np.bool_(False)]

STATE = {}  # id(obj) -> private state of the bare objects (kept outside the objects on purpose)


def _st(obj):
    return STATE[id(obj)]


class BareMove:
    """Implements exactly the Move protocol; inherits from object only."""

    def __init__(self, payload=0):
        STATE[id(self)] = {"payload": payload, "access": [], "writes": [], "results": [], "calls": 0, "atoms_notes": [], "cell_notes": [], "shift": None}

    def __getattribute__(self, name):
        STATE[id(self)]["access"].append(name)
        return object.__getattribute__(self, name)

    def __setattr__(self, name, value):
        STATE[id(self)]["writes"].append(name)
        object.__setattr__(self, name, value)

    # user components may well define value equality (e.g. dataclasses): all bare moves compare equal,
    # which must not make the driver treat two distinct objects as one
    def __eq__(self, other):
        return type(other) is type(self)

    __hash__ = object.__hash__

    # a user class may be a container (e.g. of logged results): objects with an even payload are empty, hence falsy;
    # the driver must tell "no move given" from a move by identity with None, not by truthiness
    def __len__(self):
        return STATE[id(self)]["payload"] % 2

    def __call__(self, context):
        s = STATE[id(self)]
        s["calls"] += 1
        if s["shift"] is not None and len(context.atoms):
            context.atoms.positions[0] += s["shift"]
        if s.get("grow_once"):
            # a user move may change the atom count by its own means (it knows nothing of the package's contexts)
            s["grow_once"] = False
            from ase import Atoms as _Atoms

            context.atoms.extend(_Atoms("He", positions=[[0.7, 0.9, 1.1 + 0.01 * len(context.atoms)]]))
        return s["results"].pop(0) if s["results"] else False

    def on_atoms_changed(self, added_indices, removed_indices):
        STATE[id(self)]["atoms_notes"].append(([int(i) for i in added_indices], [int(i) for i in removed_indices]))

    def on_cell_changed(self, new_cell):
        STATE[id(self)]["cell_notes"].append(np.asarray(new_cell).copy())

    def to_dict(self):
        return {"name": "BareMove", "kwargs": {"payload": STATE[id(self)]["payload"]}}

    @classmethod
    def from_dict(cls, data):
        return cls(**data.get("kwargs", {}))


class BareCriteria:
    def __init__(self, payload=0):
        STATE[id(self)] = {"payload": payload, "access": [], "writes": [], "verdicts": [], "calls": 0}

    def __getattribute__(self, name):
        STATE[id(self)]["access"].append(name)
        return object.__getattribute__(self, name)

    def __setattr__(self, name, value):
        STATE[id(self)]["writes"].append(name)
        object.__setattr__(self, name, value)

    def __len__(self):  # see BareMove.__len__: an explicit criteria stays explicit when it is an empty container
        return STATE[id(self)]["payload"] % 2

    def evaluate(self, context):
        s = STATE[id(self)]
        s["calls"] += 1
        context.atoms.get_potential_energy()
        return s["verdicts"].pop(0) if s["verdicts"] else False

    def to_dict(self):
        return {"name": "BareCriteria", "kwargs": {"payload": STATE[id(self)]["payload"]}}

    @classmethod
    def from_dict(cls, data):
        return cls(**data.get("kwargs", {}))


_SHEAR = []


def _shear_class():
    if not _SHEAR:
        from quansino.operations.core import BaseOperation
        from quansino.registry import register_class

        class SimpleShear(BaseOperation):
            """User-defined operation: simple shear (unit determinant, so the volume is bit-for-bit unchanged)."""

            def calculate(self, context):
                f = np.eye(3)
                f[0, 1] = context.rng.uniform(-0.05, 0.05)
                return f

        register_class(SimpleShear, "SimpleShear")
        _SHEAR.append(SimpleShear)
    return _SHEAR[0]


def _register():
    from quansino.registry import register_class

    register_class(BareMove, "BareMove")
    register_class(BareCriteria, "BareCriteria")


@st.composite
def scenario(draw):
    driver = draw(st.sampled_from(["MonteCarlo", "Canonical", "HamiltonianCanonical", "Isobaric", "Isotension", "GrandCanonical"]))
    n = draw(st.integers(2, 5))
    scn = {
        "driver": driver,
        "pos": [[draw(fl(0.5, 5.5)) for _ in range(3)] for _ in range(n)],
        "n_user": draw(st.integers(1, 3)),
        "shipped": draw(st.booleans()) if driver in ("Isobaric", "Isotension", "GrandCanonical") else False,
        "seed": draw(st.integers(1, 2 ** 31)),
        "shifts": [draw(st.sampled_from([None, [0.05, 0.0, 0.0], [0.0, -0.03, 0.02]])) for _ in range(3)],
        # the shipped cell entry uses either a random strain or an exactly volume-preserving simple shear
        "cell_op": draw(st.sampled_from(["aniso", "shear"])),
        # one more table entry: two bare user moves inside the package's plain CompositeMove, with a bare criteria
        "wrapped": draw(st.booleans()),
        # ... whose first member is the very object of entry u0 (one user move reachable through two table entries)
        "wrap_shared": draw(st.booleans()),
        # a bystander entry that is scheduled only every 2nd/3rd step and never selected: it is still part of the table
        # and must hear of every accepted change; and the first user move listed once more under another name with
        # its own criteria and schedule
        "idle_interval": draw(st.sampled_from([None, 2, 3])),
        "alias": draw(st.booleans()),
    }
    if driver in ("Isobaric", "Isotension", "GrandCanonical") and draw(st.integers(0, 5)) > 0:
        scn["shipped"] = True
    return scn


class C20Machine(M.HistoryMachine):
    PROP = ID

    def _do_init(self, scn):
        if self.dead:
            return
        self.log.append({"rule": "init", "args": {"scn": scn}})
        self.scn = scn
        _register()
        from quansino.mc import canonical, core, gcmc, isobaric, isotension
        from quansino.moves.cell import CellMove
        from quansino.moves.exchange import ExchangeMove
        from quansino.operations.cell import AnisotropicDeformation

        n = len(scn["pos"])
        atoms = Atoms("Ar" * n, positions=scn["pos"], cell=[6.0, 6.0, 6.0], pbc=True)
        atoms.calc = ModelCalc("pair", dict(M.PAIR, center=(3.0, 3.0, 3.0)))
        atoms.set_array("vid", np.arange(1, n + 1, dtype=np.int64))
        self.atoms = atoms
        self.next_id = n + 1
        d = scn["driver"]
        kw = {"seed": scn["seed"], "max_cycles": 1}

        def build():
            if d == "MonteCarlo":
                return core.MonteCarlo(atoms, **kw)
            if d == "Canonical":
                return canonical.Canonical(atoms, temperature=300.0, **kw)
            if d == "HamiltonianCanonical":
                return canonical.HamiltonianCanonical(atoms, temperature=300.0, **kw)
            if d == "Isobaric":
                return isobaric.Isobaric(atoms, temperature=300.0, pressure=0.01, **kw)
            if d == "Isotension":
                return isotension.Isotension(atoms, temperature=300.0, pressure=0.01, **kw)
            return gcmc.GrandCanonical(atoms, exchange_atoms=Atoms("Ar"), temperature=300.0, **kw)

        try:
            self.mc = self.guarded("build", build)
            self.users = []
            for i in range(scn["n_user"]):
                mv, cr = BareMove(payload=i + 10), BareCriteria(payload=i + 20)
                _st(mv)["shift"] = None if scn["shifts"][i] is None or d == "MonteCarlo" else np.array(scn["shifts"][i])
                self.guarded("add_move", self.mc.add_move, mv, criteria=cr, name=f"u{i}")
                self.users.append((mv, cr))
            self.idle = None
            if scn.get("idle_interval"):
                im, ic = BareMove(payload=51), BareCriteria(payload=61)
                self.guarded("add_move", self.mc.add_move, im, criteria=ic, name="idle", interval=int(scn["idle_interval"]))
                self.idle = (im, ic)
                self.labels.add("bystander-entry-with-interval")
            self.alias_cr = None
            if scn.get("alias"):
                self.alias_cr = BareCriteria(payload=71)
                self.guarded("add_move", self.mc.add_move, self.users[0][0], criteria=self.alias_cr, name="alias", interval=2, probability=0.25)
                self.labels.add("user-move-under-two-names")
            self.wrapped = None
            if scn.get("wrapped"):
                from quansino.moves.composite import CompositeMove

                wa, wb, wc = BareMove(payload=30), BareMove(payload=31), BareCriteria(payload=41)
                if scn.get("wrap_shared"):
                    wa = self.users[0][0]
                    self.labels.add("user-move-also-inside-a-composite-entry")
                self.guarded("add_move", self.mc.add_move, CompositeMove([wa, wb]), criteria=wc, name="w")
                self.wrapped = (wa, wb, wc)
                self.labels.add("bare-moves-in-plain-composite")
            self.shipped = None
            if scn["shipped"]:
                sc = M.ScriptedCriteria()
                if d == "GrandCanonical":
                    mv = ExchangeMove(np.arange(n))
                elif scn.get("cell_op") == "shear":
                    mv = CellMove(_shear_class()())
                    self.labels.add("cell-op:simple-shear")
                else:
                    mv = CellMove(AnisotropicDeformation(0.03))
                self.guarded("add_move", self.mc.add_move, mv, criteria=sc, name="shipped")
                self.shipped = (mv, sc)
        except M.Stop:
            return
        self.labels.add("driver:" + d)
        if self.shipped:
            self.labels.add("shipped:" + type(self.shipped[0]).__name__)
        self.expected_atoms_notes = []
        self.expected_cell_notes = []
        self.truthy = self.falsy = 0
        self.accepted_change = 0
        self.verdicts = ""
        self.result_kinds = set()
        # accesses made while building/adding are part of the driver's surface too
        self._check_surface("construction/add_move")

    def _select(self, name):
        for nm in self.mc.moves:
            self.mc.moves[nm].probability = 1.0 if nm == name else 0.0

    def _check_surface(self, where):
        objs = [(mv, f"user move u{i}") for i, (mv, _c) in enumerate(self.users)] + [(cr, f"user criteria of u{i}") for i, (_m, cr) in enumerate(self.users)]
        if getattr(self, "wrapped", None):
            objs += [(self.wrapped[0], "user move w[0]"), (self.wrapped[1], "user move w[1]"), (self.wrapped[2], "user criteria of w")]
        if getattr(self, "idle", None):
            objs += [(self.idle[0], "user move idle"), (self.idle[1], "user criteria of idle")]
        if getattr(self, "alias_cr", None) is not None:
            objs += [(self.alias_cr, "user criteria of alias")]
        for obj, tag in objs:
            for _once in (0,):
                s = _st(obj)
                bad = [a for a in s["access"] if a not in PROTOCOL and not (a.startswith("__") and a.endswith("__"))]
                if bad:
                    self.fail("foreign-attribute-read", f"{where}: the driver read attribute(s) {sorted(set(bad))} of the {tag} ({self.scn['driver']})")
                    return False
                if s["writes"]:
                    self.fail("attribute-written", f"{where}: the driver wrote attribute(s) {sorted(set(s['writes']))} on the {tag} ({self.scn['driver']})")
                    return False
                s["access"].clear()
        return True

    def _step(self, name):
        self._select(name)
        pre_ids = self.atoms.arrays["vid"].copy()
        pre_cell = self.atoms.cell.array.copy()

        def body():
            for step in self.mc.irun(1):
                for _ in step:
                    pass

        self.guarded("step", body)
        hist = self.mc.move_history[-1] if self.mc.move_history else (None, "missing")
        if hist[0] != name:
            self.fail("wrong-entry-run", f"selected {name} (all other weights 0) but history has {hist}")
            raise M.Stop()
        verdict = hist[1]
        ids = self.atoms.arrays["vid"]
        added = [int(p) for p in np.flatnonzero(ids == 0)]
        removed = [int(p) for p, i in enumerate(pre_ids.tolist()) if i not in set(ids.tolist())]
        for p in added:
            ids[p] = self.next_id
            self.next_id += 1
        cell_changed = not np.array_equal(pre_cell, self.atoms.cell.array)
        return verdict, added, removed, cell_changed

    def _after_any_trial(self, where, verdict, added, removed, cell_changed):
        if verdict is True and (added or removed):
            self.expected_atoms_notes.append((added, removed))
            self.accepted_change += 1
            self.labels.add("accepted:exchange")
        if verdict is True and cell_changed:
            self.expected_cell_notes.append(self.atoms.cell.array.copy())
            self.accepted_change += 1
            self.labels.add("accepted:cell")
        if verdict is not True and (added or removed or cell_changed):
            # C03's subject; here it only matters that no notification follows
            pass
        notified = [(f"u{i}", mv) for i, (mv, _cr) in enumerate(self.users)]
        if getattr(self, "wrapped", None):
            notified += [("w[0]", self.wrapped[0]), ("w[1]", self.wrapped[1])]
        if getattr(self, "idle", None):
            notified += [("idle", self.idle[0])]
        for i, mv in notified:
            s = _st(mv)
            a0, c0 = getattr(self, "replaced", {}).get(id(mv), (0, 0))
            got = [n for n in s["atoms_notes"] if n[0] or n[1]]
            if got != self.expected_atoms_notes[a0:]:
                self.fail("atom-notification", f"{where}: user move {i} received non-empty on_atoms_changed calls {got} but the accepted exchange trials were {self.expected_atoms_notes} ({self.scn['driver']})")
                return
            gotc = s["cell_notes"]
            exp = self.expected_cell_notes[c0:]
            if len(gotc) != len(exp) or any(not np.array_equal(a, b) for a, b in zip(gotc, exp)):
                self.fail("cell-notification", f"{where}: user move {i} received {len(gotc)} on_cell_changed calls but {len(exp)} cell changes were accepted ({self.scn['driver']})")
                return
        self._check_surface(where)

    @initialize(scn=scenario())
    def init(self, scn):
        self._do_init(scn)

    @rule(i=st.integers(0, 2), result=st.integers(0, len(RESULTS) - 1), verdict=st.booleans())
    def user_trial(self, i, result, verdict):
        if self.dead or self.mc is None:
            return
        self.log.append({"rule": "user_trial", "args": {"i": i, "result": result, "verdict": verdict}})
        i = i % len(self.users)
        mv, cr = self.users[i]
        res = RESULTS[result]
        _st(mv)["results"] = [res]
        _st(cr)["verdicts"] = [verdict]
        calls0, ccalls0 = _st(mv)["calls"], _st(cr)["calls"]
        try:
            got, added, removed, cell_changed = self._step(f"u{i}")
        except M.Stop:
            return
        where = f"user trial u{i} result={res!r} verdict={verdict}"
        self.result_kinds.add(repr(res))
        if res:
            self.truthy += 1
        else:
            self.falsy += 1
        if _st(mv)["calls"] != calls0 + 1:
            self.fail("move-call-count", f"{where}: the user move was called {_st(mv)['calls'] - calls0} times in one trial")
            return
        consulted = _st(cr)["calls"] - ccalls0
        if bool(res):
            if consulted != 1:
                self.fail("criteria-not-consulted", f"{where}: truthy move result but the criteria was consulted {consulted} times")
                return
            if got is not verdict and got != verdict:
                self.fail("history-verdict", f"{where}: move_history recorded {got!r}")
                return
        else:
            if consulted != 0:
                self.fail("criteria-consulted-on-falsy", f"{where}: falsy move result but the criteria was consulted {consulted} times")
                return
            if got is not None:
                self.fail("history-falsy-not-none", f"{where}: falsy move result must be recorded as not attempted (None), history has {got!r}")
                return
        self.verdicts += {True: "A", False: "R", None: "F"}.get(got, "?")
        self._after_any_trial(where, got, added, removed, cell_changed)

    @rule(i=st.integers(0, 2), r1=st.integers(0, len(RESULTS) - 1), r2=st.integers(0, len(RESULTS) - 1), v1=st.booleans(), v2=st.booleans())
    def user_double_trial(self, i, r1, r2, v1, v2):
        """Two trials of one user entry within one step (two cycles): each is recorded by its own outcome."""
        if self.dead or self.mc is None:
            return
        self.log.append({"rule": "user_double_trial", "args": {"i": i, "r1": r1, "r2": r2, "v1": v1, "v2": v2}})
        i = i % len(self.users)
        mv, cr = self.users[i]
        res = [RESULTS[r1], RESULTS[r2]]
        _st(mv)["results"] = list(res)
        _st(cr)["verdicts"] = [v for r, v in zip(res, (v1, v2)) if r]
        self._select(f"u{i}")
        old_cycles = self.mc.max_cycles
        self.mc.max_cycles = 2

        def body():
            for step in self.mc.irun(1):
                for _ in step:
                    pass

        try:
            self.guarded("step", body)
        except M.Stop:
            return
        finally:
            self.mc.max_cycles = old_cycles
        hist = [h for h in self.mc.move_history]
        want = [((v1 if res[0] else None)), ((v2 if res[1] else None))]
        got = [h[1] for h in hist]
        where = f"two trials of u{i} in one step, results {res!r}, verdicts {(v1, v2)}"
        if [h[0] for h in hist] != [f"u{i}", f"u{i}"] or len(got) != 2 or any((g is not w and g != w) or ((g is None) != (w is None)) for g, w in zip(got, want)):
            self.fail("history-two-cycles", f"{where}: move_history {hist!r}, expected outcomes {want!r}")
            return
        for r in res:
            self.result_kinds.add(repr(r))
            if r:
                self.truthy += 1
            else:
                self.falsy += 1
        self.labels.add("two-cycles-in-one-step")
        self._after_any_trial(where, None, [], [], False)

    @rule(i=st.integers(0, 2))
    def user_move_grows_the_system(self, i):
        """Grand canonical driver, no shipped exchange entry: a user move adds an atom itself and is accepted by its
        criteria.  Every user move of the table hears of the accepted change (what the call carries is not prescribed)."""
        if self.dead or self.mc is None or self.scn["driver"] != "GrandCanonical" or self.shipped:
            return
        self.log.append({"rule": "user_move_grows_the_system", "args": {"i": i}})
        i = i % len(self.users)
        mv, cr = self.users[i]
        _st(mv)["results"], _st(mv)["grow_once"] = [True], True
        _st(cr)["verdicts"] = [True]
        listeners = [(f"u{k}", m) for k, (m, _c) in enumerate(self.users)]
        if getattr(self, "idle", None):
            listeners.append(("idle", self.idle[0]))
        if getattr(self, "wrapped", None):
            listeners += [("w[0]", self.wrapped[0]), ("w[1]", self.wrapped[1])]
        before = {name: len(_st(m)["atoms_notes"]) for name, m in listeners}
        n0 = len(self.atoms)
        self._select(f"u{i}")

        def body():
            for step in self.mc.irun(1):
                for _ in step:
                    pass

        try:
            self.guarded("step", body)
        except M.Stop:
            return
        ids = self.atoms.arrays["vid"]
        for p in np.flatnonzero(ids == 0):
            ids[p] = self.next_id
            self.next_id += 1
        hist = self.mc.move_history[-1] if self.mc.move_history else (None, None)
        where = f"user move u{i} added an atom itself and was accepted"
        if hist[1] is not True or len(self.atoms) != n0 + 1:
            self.fail("user-growth-not-accepted", f"{where}: history {hist!r}, atoms {n0} -> {len(self.atoms)}")
            return
        deaf = [name for name, m in listeners if len(_st(m)["atoms_notes"]) == before[name]]
        if deaf:
            self.fail("atom-notification", f"{where}: user moves {deaf} were not told of the accepted change of the atom count (GrandCanonical)")
            return
        # these calls carry whatever the driver had; the bookkeeping of the other rules only counts non-empty ones
        self.truthy += 1
        self.accepted_change += 1
        self.labels.add("user-move-changed-the-atom-count")
        self._check_surface(where)

    @rule(ra=st.integers(0, len(RESULTS) - 1), rb=st.integers(0, len(RESULTS) - 1), verdict=st.booleans())
    def wrapped_trial(self, ra, rb, verdict):
        """Trial of the entry holding two bare moves in a plain CompositeMove: each is executed exactly once; the trial
        reaches the criteria exactly when one of them returned something truthy."""
        if self.dead or self.mc is None or not getattr(self, "wrapped", None):
            return
        self.log.append({"rule": "wrapped_trial", "args": {"ra": ra, "rb": rb, "verdict": verdict}})
        wa, wb, wc = self.wrapped
        _st(wa)["results"], _st(wb)["results"] = [RESULTS[ra]], [RESULTS[rb]]
        _st(wc)["verdicts"] = [verdict]
        c0 = (_st(wa)["calls"], _st(wb)["calls"], _st(wc)["calls"])
        try:
            got, added, removed, cell_changed = self._step("w")
        except M.Stop:
            return
        where = f"trial of CompositeMove([bare, bare]) results=({RESULTS[ra]!r}, {RESULTS[rb]!r}) verdict={verdict}"
        n_a, n_b, n_c = _st(wa)["calls"] - c0[0], _st(wb)["calls"] - c0[1], _st(wc)["calls"] - c0[2]
        if (n_a, n_b) != (1, 1):
            self.fail("wrapped-move-call-count", f"{where}: the two user moves were executed ({n_a}, {n_b}) times in one trial")
            return
        anyt = bool(RESULTS[ra]) or bool(RESULTS[rb])
        if anyt:
            self.truthy += 1
        else:
            self.falsy += 1
        if n_c != (1 if anyt else 0):
            self.fail("criteria-not-consulted" if anyt else "criteria-consulted-on-falsy", f"{where}: the criteria was consulted {n_c} times")
            return
        if anyt and got is not verdict and got != verdict:
            self.fail("history-verdict", f"{where}: move_history recorded {got!r}")
            return
        if not anyt and got is not None:
            self.fail("history-falsy-not-none", f"{where}: no truthy result, history has {got!r}")
            return
        self.verdicts += {True: "W", False: "w", None: "-"}.get(got, "?")
        self._after_any_trial(where, got, added, removed, cell_changed)

    @rule(i=st.integers(0, 2), via=st.sampled_from(["add_move", "storage"]), verdict=st.booleans())
    def replace_between_announcement_and_trial(self, i, via, verdict):
        """A caller iterating the step replaces the entry whose name was just announced (yielded) before resuming:
        the trial that follows is the new entry's."""
        if self.dead or self.mc is None:
            return
        self.log.append({"rule": "replace_between_announcement_and_trial", "args": {"i": i, "via": via, "verdict": verdict}})
        i = i % len(self.users)
        old_mv, old_cr = self.users[i]
        mv = BareMove(payload=i + 10)
        _st(mv)["shift"] = _st(old_mv)["shift"]
        _st(mv)["results"] = [True]
        _st(old_mv)["results"] = [True]
        cr = BareCriteria(payload=i + 20) if via == "add_move" else old_cr
        _st(cr)["verdicts"] = [verdict]
        _st(old_cr)["verdicts"] = [verdict]
        self._select(f"u{i}")
        c_old, c_new = _st(old_mv)["calls"], _st(mv)["calls"]
        k_old, k_new = _st(old_cr)["calls"], _st(cr)["calls"]
        state = {"done": False}

        def body():
            for step in self.mc.irun(1):
                for _name in step:
                    if not state["done"]:
                        state["done"] = True
                        if via == "add_move":
                            self.mc.add_move(mv, criteria=cr, name=f"u{i}")
                        else:
                            self.mc.moves[f"u{i}"].move = mv

        try:
            self.guarded("step", body)
        except M.Stop:
            return
        self.users[i] = (mv, cr)
        self.replaced = getattr(self, "replaced", {})
        self.replaced[id(mv)] = (len(self.expected_atoms_notes), len(self.expected_cell_notes))
        where = f"entry u{i} replaced ({via}) after its name was announced"
        if _st(mv)["calls"] - c_new != 1 or _st(old_mv)["calls"] - c_old != 0:
            self.fail("replaced-entry-not-executed", f"{where}: the new move was executed {_st(mv)['calls'] - c_new} times, the replaced one {_st(old_mv)['calls'] - c_old} times")
            return
        if via == "add_move" and (_st(cr)["calls"] - k_new != 1 or _st(old_cr)["calls"] - k_old != 0):
            self.fail("replaced-entry-not-executed", f"{where}: the new criteria was consulted {_st(cr)['calls'] - k_new} times, the replaced one {_st(old_cr)['calls'] - k_old} times")
            return
        _st(old_mv)["results"], _st(old_cr)["verdicts"] = [], []
        self.truthy += 1
        self.labels.add("entry-replaced-inside-a-step")
        self._after_any_trial(where, None, [], [], False)

    @rule(i=st.integers(0, 2), via=st.sampled_from(["add_move", "storage"]))
    def replace_user_move(self, i, via):
        """Replace a user move under its existing table name (both documented ways); the new object must be the one
        that is executed, serialized and notified from now on."""
        if self.dead or self.mc is None:
            return
        self.log.append({"rule": "replace_user_move", "args": {"i": i, "via": via}})
        i = i % len(self.users)
        old_mv, old_cr = self.users[i]
        mv = BareMove(payload=i + 10)
        _st(mv)["shift"] = _st(old_mv)["shift"]
        # the new object has seen no accepted change yet: its expected notification log starts empty
        if via == "add_move":
            cr = BareCriteria(payload=i + 20)
            try:
                self.guarded("add_move(replace)", self.mc.add_move, mv, criteria=cr, name=f"u{i}")
            except M.Stop:
                return
        else:
            cr = old_cr
            self.mc.moves[f"u{i}"].move = mv
        self.users[i] = (mv, cr)
        self.replaced = getattr(self, "replaced", {})
        self.replaced[id(mv)] = (len(self.expected_atoms_notes), len(self.expected_cell_notes))
        self.labels.add("replaced-user-move")

    @rule(verdict=st.booleans(), direction=st.sampled_from(["ins", "del"]))
    def shipped_trial(self, verdict, direction):
        if self.dead or self.mc is None or not self.shipped:
            return
        self.log.append({"rule": "shipped_trial", "args": {"verdict": verdict, "direction": direction}})
        mv, sc = self.shipped
        sc.queue = [verdict]
        if hasattr(mv, "bias_towards_insert"):
            mv.bias_towards_insert = 1.0 if direction == "ins" else 0.0
        try:
            got, added, removed, cell_changed = self._step("shipped")
        except M.Stop:
            return
        self.verdicts += {True: "a", False: "r", None: "f"}.get(got, "?")
        self._after_any_trial(f"shipped {type(mv).__name__} trial verdict={verdict}", got, added, removed, cell_changed)

    @rule()
    def roundtrip(self):
        if self.dead or self.mc is None:
            return
        self.log.append({"rule": "roundtrip", "args": {}})
        from ase.io.jsonio import decode, encode

        def body():
            d = self.mc.to_dict()
            for i, (mv, cr) in enumerate(self.users):
                km = d["moves"][f"u{i}"]["kwargs"]
                if km["move"] != {"name": "BareMove", "kwargs": {"payload": i + 10}} or km["criteria"] != {"name": "BareCriteria", "kwargs": {"payload": i + 20}}:
                    self.fail("serialisation-content", f"simulation dictionary does not contain the user objects' own dictionaries: {km}")
                    raise M.Stop()
            d2 = decode(encode(d))
            mc2 = type(self.mc).from_dict(d2)
            for i in range(len(self.users)):
                st2 = mc2.moves.get(f"u{i}")
                if st2 is None or type(st2.move) is not BareMove or type(st2.criteria) is not BareCriteria \
                        or _st(st2.move)["payload"] != i + 10 or _st(st2.criteria)["payload"] != i + 20:
                    self.fail("serialisation-rebuild", f"{type(self.mc).__name__}.from_dict did not rebuild user entry u{i}")
                    raise M.Stop()
            if getattr(self, "idle", None):
                k = d["moves"]["idle"]["kwargs"]
                i2 = mc2.moves.get("idle")
                if k["move"] != {"name": "BareMove", "kwargs": {"payload": 51}} or k["criteria"] != {"name": "BareCriteria", "kwargs": {"payload": 61}} \
                        or i2 is None or i2.interval != int(self.scn["idle_interval"]):
                    self.fail("serialisation-content", f"bystander entry not serialised with its own objects and schedule: {k}")
                    raise M.Stop()
            if getattr(self, "alias_cr", None) is not None:
                k = d["moves"]["alias"]["kwargs"]
                a2 = mc2.moves.get("alias")
                if k["criteria"] != {"name": "BareCriteria", "kwargs": {"payload": 71}} or k["move"] != {"name": "BareMove", "kwargs": {"payload": 10}} \
                        or a2 is None or a2.interval != 2 or type(a2.criteria) is not BareCriteria or _st(a2.criteria)["payload"] != 71:
                    self.fail("serialisation-content", f"the second entry of a move listed under two names lost its own criteria or schedule: {k}")
                    raise M.Stop()
            if getattr(self, "wrapped", None):
                w2 = mc2.moves.get("w")
                inner = list(getattr(getattr(w2, "move", None), "moves", []) or [])
                if [type(x) for x in inner] != [BareMove, BareMove] or [_st(x)["payload"] for x in inner] != [10 if self.scn.get("wrap_shared") else 30, 31] or type(w2.criteria) is not BareCriteria:
                    self.fail("serialisation-rebuild", f"{type(self.mc).__name__}.from_dict did not rebuild the user moves inside the plain composite entry")
                    raise M.Stop()
            mc2.close()

        try:
            self.guarded("to_dict/from_dict", body)
        except M.Stop:
            return
        self.labels.add("roundtrip")
        self._check_surface("to_dict/from_dict")

    def is_nontrivial(self):
        return getattr(self, "accepted_change", 0) >= 1 and getattr(self, "truthy", 0) >= 1 and getattr(self, "falsy", 0) >= 1

    def distinct_key(self):
        if self.mc is None:
            return None
        return "|".join([self.scn["driver"], str(self.scn["n_user"]), str(bool(self.shipped)), ",".join(sorted(self.result_kinds)), self.verdicts[:8]])


def factory(sink):
    class Run(C20Machine):
        pass

    Run.sink = sink
    return Run


def _driver(case):
    return case["log"][0]["args"]["scn"].get("driver") if case.get("log") else None


def plan(tier):
    if tier == "quick":
        return [{"part": "machine", "shards": 16, "budget": {"n_examples": 700, "steps": 25}}]
    return [{"part": "machine", "shards": 16, "budget": {"n_examples": 8000, "steps": 40}}]


def run_part(part, seed, shard, nshards, budget):
    return hyp.run_machine(factory, budget["n_examples"], budget["steps"], seed, part)


def replay(part, case):
    m = factory(M.ReplaySink())()
    for rec in case["log"]:
        if rec["rule"] == "init":
            m._do_init(rec["args"]["scn"])
        else:
            getattr(m, rec["rule"])(**rec["args"])
        if m.dead:
            break
    m.teardown()
    return m.outcome()
