"""C15 - observers fire on schedule and splitting a run does not change it.

Generated: driver (Canonical, GrandCanonical or ForceBias with a cheap pure calculator), seed, total n,
a composition of n into 1-5 consecutive segments (zero-length ones allowed at any position), the entry
point used for each segment (run / srun / fully iterated irun), 1-4 recording observers with positive and
negative intervals, default logger and trajectory written to StringIO.
Oracle: (i) an arithmetic model of the call schedule; (ii) a single run(n) on an identically built
simulation must give the same final atoms, step counter, log text, trajectory text and observer call logs.
"""
from __future__ import annotations

import io
import warnings

import numpy as np
from ase import Atoms
from hypothesis import strategies as st

from vlib import hyp
from vlib.calcs import ModelCalc
from vlib.gen import fl

ID = "C15"
LEVEL = "exploration"
TECHNIQUE = "property-based testing (Hypothesis): generated run-splitting histories compared with a counting model of the observer schedule and, differentially, with the unsplit run"
RULE = (
    "case = (driver out of six, seed, n<=14, segments summing to n incl. zero-length, entry point per segment, observer intervals from {1,2,3,5,-1,-3,-n,-(n+2)}, default logger / trajectory present or not, "
    "consecutive irun generators created before either is exhausted); "
    "non-trivial = at least two segments using different entry points and an observer with |interval|>1; "
    "distinct = (driver, segment lengths, entry points, intervals). abandon: (driver, run(first); a loop over srun/irun(budget) left after j yields; then run/irun(m)); "
    "oracle: the last call advances the step counter by exactly m and an every-step observer is called once per step of it; non-trivial = every executed case."
)
ASSUMPTIONS = [
    "calculators are pure functions with a fixed summation order so that the split and unsplit runs can be compared bitwise",
    "negative interval -k with k = 0 is not generated (not meaningful)",
    "ForceBias offers run and irun only; srun exists on the Monte Carlo drivers",
]
LEVEL_TEXT = (
    "Bounded exploration of all ways to cut a short run into consecutive calls of the three entry points with several observers attached; the oracle is an "
    "explicit schedule model plus a differential comparison with one uninterrupted run of the same configuration."
)
LEVEL_NOTE = "Trusted: StringIO capture of the default logger/trajectory, byte comparison of arrays."
DESIGN_REF = "DESIGN.md section 3, C15"


@st.composite
def case_st(draw):
    n = draw(st.integers(1, 14))
    k = draw(st.integers(1, 5))
    cuts = sorted(draw(st.lists(st.integers(0, n), min_size=k - 1, max_size=k - 1)))
    segs = [b - a for a, b in zip([0] + cuts, cuts + [n])]
    if draw(st.integers(0, 3)) == 0:
        segs.insert(draw(st.integers(0, len(segs))), 0)
    driver = draw(st.sampled_from(["Canonical", "GrandCanonical", "ForceBias", "Isobaric", "HamiltonianCanonical", "AdaptiveForceBias"]))
    eps = ["run", "irun"] if "ForceBias" in driver else ["run", "srun", "irun"]
    ivals = draw(st.lists(st.sampled_from([1, 2, 3, 5, -1, -3, -n, -(n + 2)]), min_size=1, max_size=4))
    return {
        "driver": driver, "n": n, "segments": segs, "entry": [draw(st.sampled_from(eps)) for _ in segs],
        "intervals": ivals, "seed": draw(st.integers(0, 2 ** 32)), "logging_interval": draw(st.sampled_from([1, 1, 2, 3])),
        "pos": [[draw(fl(0.5, 4.5)) for _ in range(3)] for _ in range(3)],
        # the log stream may already hold text of the user's (a title, an earlier run) when the simulation gets it
        "log_prefix": draw(st.sampled_from(["", "", "# production run 7\n", "Class  Step  leftover of an earlier log\n  old row\n"])),
        # cycles per step left at the driver's default (the atom count at construction time)
        "default_cycles": draw(st.booleans()),
        "logfile": draw(st.sampled_from([True, True, False])), "trajectory": draw(st.sampled_from([True, True, False])),
        # create the generators of consecutive irun segments first and exhaust them afterwards
        "deferred_irun": draw(st.sampled_from([False, False, True])),
        # the (public) interval of one recording observer is re-tuned before a later run call
        "retune": draw(st.one_of(st.none(), st.tuples(st.integers(1, 4), st.integers(0, 3), st.sampled_from([1, 2, 3, 4])))),
    }


def build(case):
    from quansino.io.core import Observer
    from quansino.mc.canonical import Canonical
    from quansino.mc.fbmc import ForceBias
    from quansino.mc.gcmc import GrandCanonical
    from quansino.moves.displacement import DisplacementMove
    from quansino.moves.exchange import ExchangeMove
    from quansino.operations.displacement import Ball

    atoms = Atoms("Ar3", positions=case["pos"], cell=[5, 5, 5], pbc=True)
    atoms.calc = ModelCalc("pair", {"k": 0.05, "center": (2.5, 2.5, 2.5), "a": 0.4, "s": 1.6})
    log, traj = io.StringIO(), io.StringIO()
    log.write(case.get("log_prefix", ""))
    kw = {"seed": case["seed"], "logging_interval": case["logging_interval"]}
    if case.get("logfile", True):
        kw["logfile"] = log
    if case.get("trajectory", True):
        kw["trajectory"] = traj
    if case["driver"] == "Canonical":
        mc = Canonical(atoms, temperature=3000.0, max_cycles=(None if case.get("default_cycles") else 2), **kw)
        mc.add_move(DisplacementMove(np.arange(3), Ball(0.3)), name="d")
    elif case["driver"] == "GrandCanonical":
        mc = GrandCanonical(atoms, exchange_atoms=Atoms("Ar"), temperature=3000.0, chemical_potential=-0.3, number_of_exchange_particles=3,
                            max_cycles=(None if case.get("default_cycles") else 2), **kw)
        mc.add_move(DisplacementMove(np.arange(3), Ball(0.3)), name="d")
        mc.add_move(ExchangeMove(np.arange(3)), name="x")
    elif case["driver"] == "Isobaric":
        from quansino.mc.isobaric import Isobaric
        from quansino.moves.cell import CellMove

        mc = Isobaric(atoms, temperature=3000.0, pressure=0.01, max_cycles=2, **kw)
        mc.add_move(CellMove(), name="c")
        mc.add_move(DisplacementMove(np.arange(3), Ball(0.3)), name="d")
    elif case["driver"] == "HamiltonianCanonical":
        from quansino.integrators.displacement import Verlet
        from quansino.mc.canonical import HamiltonianCanonical
        from quansino.moves.displacement import HamiltonianDisplacementMove

        mc = HamiltonianCanonical(atoms, temperature=3000.0, max_cycles=1, **kw)
        mc.add_move(HamiltonianDisplacementMove(operation=Verlet(dt=2.0, max_steps=3)), name="h")
    elif case["driver"] == "AdaptiveForceBias":
        from quansino.mc.fbmc import AdaptiveForceBias

        atoms.calc = ModelCalc("pair", {"k": 0.05, "center": (2.5, 2.5, 2.5), "a": 0.4, "s": 1.6}, committee=[-0.05, 0.0, 0.07])
        mc = AdaptiveForceBias(atoms, min_delta=0.02, max_delta=0.1, temperature=1000.0, **kw)
    else:
        mc = ForceBias(atoms, delta=0.1, temperature=1000.0, **kw)

    class Rec(Observer):
        def __init__(self, interval):
            super().__init__(interval)
            self.calls = []

        def __call__(self):
            self.calls.append(mc.step_count)

        def attach_simulation(self, *a, **k):
            pass

        def close(self):
            pass

    recs = []
    for i, iv in enumerate(case["intervals"]):
        r = Rec(iv)
        mc.file_manager.attach_observer(f"rec{i}", r)
        recs.append(r)
    return mc, atoms, log, traj, recs


def execute(mc, how, k):
    if how == "run":
        mc.run(k)
    elif how == "srun":
        for _ in mc.srun(k):
            pass
    else:
        for step in mc.irun(k):
            if step is not None and hasattr(step, "__iter__") and not isinstance(step, np.ndarray):
                for _ in step:
                    pass


def expected_calls(interval, n):
    if interval > 0:
        return [s for s in range(0, n + 1) if s % interval == 0]
    return [-interval] if -interval <= n else []


def run_case(case):
    labels = ["driver:" + case["driver"]]
    n = case["n"]
    lead0 = case["segments"][0] == 0 and len(case["segments"]) > 1
    if lead0:
        labels.append("leading-zero-segment")
    if 0 in case["segments"]:
        labels.append("zero-length-segment")
    try:
        with warnings.catch_warnings():
            warnings.simplefilter("ignore")
            mc, atoms, log, traj, recs = build(case)
            plan = list(zip(case["entry"], case["segments"]))
            i = 0
            retune = case.get("retune") if not case.get("deferred_irun") else None
            retuned = None  # (observer index, step at which the new interval took over, old interval, new interval)
            while i < len(plan):
                how, k = plan[i]
                before = mc.step_count
                if retune and i == retune[0] and i >= 1 and retuned is None and recs[retune[1] % len(recs)].interval > 0 and before > 0:
                    j = retune[1] % len(recs)
                    retuned = (j, before, recs[j].interval, int(retune[2]))
                    recs[j].interval = int(retune[2])
                    labels.append("observer-interval-retuned-between-calls")
                if case.get("deferred_irun") and how == "irun" and i + 1 < len(plan) and plan[i + 1][0] == "irun":
                    labels.append("deferred-irun-pair")
                    k2 = plan[i + 1][1]
                    g1, g2 = mc.irun(k), mc.irun(k2)
                    for g in (g1, g2):
                        for step in g:
                            if step is not None and hasattr(step, "__iter__") and not isinstance(step, np.ndarray):
                                for _ in step:
                                    pass
                    if mc.step_count != before + k + k2:
                        return {"labels": labels, "nontrivial": True, "violation": {"kind": "step-count:deferred-irun", "detail": f"g1=irun({k}); g2=irun({k2}); exhausting g1 then g2 from step {before} ended at step {mc.step_count}"}}
                    i += 2
                    continue
                execute(mc, how, k)
                if mc.step_count != before + k:
                    return {"labels": labels, "nontrivial": True, "violation": {"kind": f"step-count:{how}", "detail": f"{how}({k}) from step {before} ended at step {mc.step_count}"}}
                i += 1
            ref, ratoms, rlog, rtraj, rrecs = build(case)
            ref.run(n)
    except Exception as exc:
        return {"labels": labels + ["raised"], "nontrivial": True, "violation": {"kind": f"raises:{type(exc).__name__}", "detail": repr(exc)}}
    nontrivial = len(set(h for h, k in zip(case["entry"], case["segments"]))) >= 2 and len(case["segments"]) >= 2 and any(abs(i) > 1 for i in case["intervals"])
    out = {"labels": labels, "nontrivial": nontrivial,
           "key": f"{case['driver']}|{case['segments']}|{case['entry']}|{case['intervals']}|{case['logging_interval']}", "violation": None}

    def viol(kind, detail):
        out["nontrivial"] = True
        out["violation"] = {"kind": kind, "detail": f"{case['driver']} segments={case['segments']} entry={case['entry']}: {detail}"}
        return out

    # (i) schedule model
    for j, (r, iv) in enumerate(zip(recs, case["intervals"])):
        exp = expected_calls(iv, n)
        if retuned is not None and retuned[0] == j:
            _j, at, old, new = retuned
            exp = [s for s in range(0, at + 1) if s % old == 0] + [s for s in range(at + 1, n + 1) if s % new == 0]
        if r.calls != exp:
            return viol("observer-schedule" + (":leading-zero" if lead0 else ""), f"observer with interval {iv} was called at steps {r.calls}, model says {exp}")
    text = log.getvalue()
    prefix = case.get("log_prefix", "")
    if prefix:
        labels.append("log-stream-not-empty")
        if not text.startswith(prefix):
            return viol("log-earlier-text-lost", f"the text the log stream held before the run ({prefix!r}) was overwritten")
        text = text[len(prefix):]
    if not case.get("logfile", True):
        labels.append("no-logfile")
    lines = text.splitlines() if case.get("logfile", True) else None
    n_rows = len(expected_calls(case["logging_interval"], n))
    if lines is not None:
        header = [l for l in lines if l.lstrip().startswith("Class")]
        if len(header) != 1 or (lines and not lines[0].lstrip().startswith("Class")):
            return viol("log-header" + (":leading-zero" if lead0 else ""), f"log has {len(header)} header lines (first line {lines[0][:40] if lines else None!r})")
        if len(lines) != 1 + n_rows:
            return viol("log-rows", f"log has {len(lines) - 1} rows, expected {n_rows}")
    if case.get("trajectory", True):
        frames = traj.getvalue().count("Lattice=")
        if frames != n_rows:
            return viol("trajectory-frames" + (":leading-zero" if lead0 else ""), f"trajectory has {frames} frames, expected {n_rows}")
    # (ii) differential: unsplit run
    if mc.step_count != ref.step_count:
        return viol("split-step-count", f"step_count {mc.step_count} vs {ref.step_count} for the unsplit run")
    if atoms.positions.tobytes() != ratoms.positions.tobytes() or atoms.numbers.tobytes() != ratoms.numbers.tobytes() or atoms.cell.array.tobytes() != ratoms.cell.array.tobytes():
        return viol("split-trajectory", "final atoms differ from those of the unsplit run(n)")
    if text != rlog.getvalue()[len(prefix):]:
        return viol("split-log", "log text differs from the unsplit run(n)")
    if traj.getvalue() != rtraj.getvalue():
        return viol("split-trajectory-file", "trajectory text differs from the unsplit run(n)")
    for j, (r, rr, iv) in enumerate(zip(recs, rrecs, case["intervals"])):
        if retuned is not None and retuned[0] == j:
            continue  # the unsplit reference run cannot re-tune in the middle
        if r.calls != rr.calls:
            return viol("split-observer-calls", f"observer interval {iv}: calls {r.calls} vs {rr.calls} in the unsplit run")
    return out


KNOWN = {}


# ------------------------------------------------------------------ a loop over srun/irun that is left early
@st.composite
def abandon_case(draw):
    base = draw(case_st())
    return dict(base, intervals=[1], retune=None, deferred_irun=False, log_prefix="",
                loop_budget=draw(st.integers(2, 12)), break_after=draw(st.integers(0, 5)), then=draw(st.integers(0, 4)),
                loop_entry=draw(st.sampled_from(["srun", "irun"])), then_entry=draw(st.sampled_from(["run", "irun"])), first=draw(st.integers(0, 3)),
                # instead of leaving the loop: attach one more observer from inside the loop body and run the loop to its end
                attach_inside=draw(st.booleans()), attach_interval=draw(st.sampled_from([1, 2, 3])))


def run_abandon(case):
    """`for ... in mc.srun(budget): ... break` leaves the loop early; the next call still performs exactly what it is
    asked for (the leftover budget of the abandoned loop is nobody's)."""
    labels = ["abandon", "driver:" + case["driver"], "loop:" + case["loop_entry"]]
    if case["loop_entry"] == "srun" and "ForceBias" in case["driver"]:
        case = dict(case, loop_entry="irun")
    out = {"labels": labels, "nontrivial": True, "violation": None,
           "key": f"{case['driver']}|{case['loop_budget']}|{case['break_after']}|{case['then']}|{case['loop_entry']}|{case['then_entry']}|{case['first']}"}
    try:
        with warnings.catch_warnings():
            warnings.simplefilter("ignore")
            mc, atoms, log, traj, recs = build(case)
            execute(mc, "run", case["first"])
            gen = getattr(mc, case["loop_entry"])(case["loop_budget"])
            late = None
            for i, step in enumerate(gen):
                if case["loop_entry"] == "irun" and step is not None and hasattr(step, "__iter__") and not isinstance(step, np.ndarray):
                    for _ in step:
                        pass
                if case.get("attach_inside"):
                    if i == case["break_after"] and late is None:
                        late = type(recs[0])(int(case["attach_interval"]))
                        attached_at = mc.step_count
                        mc.file_manager.attach_observer("late", late)
                    continue
                if i >= case["break_after"]:
                    break
            if case.get("attach_inside"):
                labels.append("observer-attached-inside-the-loop")
                end = mc.step_count
                if late is not None:
                    want = [s for s in range(attached_at + 1, end + 1) if s % late.interval == 0]
                    if late.calls != want:
                        out["violation"] = {"kind": "abandon:late-observer", "detail": f"{case['driver']}: observer (interval {late.interval}) attached inside a {case['loop_entry']}({case['loop_budget']}) loop at step {attached_at}: called at {late.calls}, expected {want} (loop ended at step {end})"}
                return out
            del gen
            c0 = mc.step_count
            calls0 = len(recs[0].calls)
            execute(mc, case["then_entry"], case["then"])
            c1 = mc.step_count
            new_calls = recs[0].calls[calls0:]
    except Exception as exc:
        out["violation"] = {"kind": f"abandon:raises:{type(exc).__name__}", "detail": repr(exc)[:300]}
        return out
    where = f"{case['driver']}: run({case['first']}); loop over {case['loop_entry']}({case['loop_budget']}) left after {case['break_after'] + 1} yields at step {c0}; then {case['then_entry']}({case['then']})"
    if c1 != c0 + case["then"]:
        out["violation"] = {"kind": "abandon:step-count", "detail": f"{where} ended at step {c1}, expected {c0 + case['then']}"}
    elif [c for c in new_calls if c > c0] != list(range(c0 + 1, c0 + case["then"] + 1)):
        out["violation"] = {"kind": "abandon:observer-calls", "detail": f"{where}: an every-step observer was called at steps {new_calls}"}
    return out


def plan(tier):
    if tier == "quick":
        return [{"part": "split", "shards": 14, "budget": {"n_examples": 500}}, {"part": "abandon", "shards": 2, "budget": {"n_examples": 300}}]
    return [{"part": "split", "shards": 14, "budget": {"n_examples": 13000}}, {"part": "abandon", "shards": 2, "budget": {"n_examples": 6000}}]


def run_part(part, seed, shard, nshards, budget):
    if part == "abandon":
        return hyp.search(abandon_case(), run_abandon, budget["n_examples"], seed, part)
    return hyp.search(case_st(), run_case, budget["n_examples"], seed, part)


def replay(part, case):
    return run_abandon(case) if part == "abandon" else run_case(case)
