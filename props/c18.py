"""C18 - adaptive force-bias step length stays in range and shrinks with uncertainty.

Generated (min_delta <= max_delta, reference variance, variance inputs incl. 0 / tiny / = reference /
huge / 1e300, scalar or per-coordinate arrays, scheme forces|energy, update tanh|exp), realised
  direct   : through `update_delta()` with the scheme's coefficient function replaced by the
             prescribed variance (exercises the update functions and the delta formula);
  end2end  : through `update_delta()` with committee arrays in `calc.results` constructed to have the
             prescribed coefficient, and with no committee data at all.
Oracle: range, anchor points (0 -> max, reference -> midpoint, huge -> min), monotonicity on ordered pairs.
"""
from __future__ import annotations

import types
import warnings

import numpy as np
from ase import Atoms
from hypothesis import strategies as st

from vlib import hyp
from vlib.gen import fl, log10_floats

ID = "C18"
LEVEL = "exploration"
TECHNIQUE = "property-based testing (Hypothesis): numeric inputs incl. boundary values against range / anchor-point / monotonicity oracles"
RULE = (
    "case = (min<=max delta in 1e-4..10 incl. equal, reference variance 1e-6..1e3, ordered pair of variance inputs drawn from {0, tiny, fractions and multiples of the reference, 1e6 x reference, 1e300}, "
    "scalar or (N,3) array, scheme, update function, direct or end-to-end). Non-trivial = min<max and at least one variance within 1e-3..1e3 of the reference; "
    "distinct = rounded (min, max, ref, variance ratios, scheme, update, mode)."
)
ASSUMPTIONS = [
    "for the forces scheme committee members are constructed with non-zero mean magnitude per coordinate (a coordinate on which all members are exactly zero has no defined variation coefficient)",
    "range tolerance 4 ulp of max_delta; midpoint tolerance 1e-12 relative",
]
LEVEL_TEXT = "Bounded exploration of the numeric domain (including zero, equal bounds and 1e300) with exact anchor-point and monotonicity oracles; microseconds per case."
LEVEL_NOTE = "Trusted: numpy float arithmetic; the construction of committee arrays with a prescribed coefficient (two-member symmetric committees)."
DESIGN_REF = "DESIGN.md section 3, C18"


@st.composite
def case_st(draw):
    lo = draw(log10_floats(-4, 1))
    hi = lo if draw(st.integers(0, 9)) == 0 else max(lo, draw(log10_floats(-4, 1)))
    lo, hi = min(lo, hi), max(lo, hi)
    ref = draw(log10_floats(-6, 3))
    ratio = st.one_of(st.sampled_from([0.0, 1e-300, 1e-12, 1e-3, 0.5, 1.0, 1.0, 2.0, 1e3, 1e6, 1e9]), log10_floats(-3, 3), st.just("1e300"))
    r1, r2 = draw(ratio), draw(ratio)
    n = draw(st.integers(1, 4))
    mode = draw(st.sampled_from(["direct", "direct", "end2end", "nodata", "step"]))
    scheme = draw(st.sampled_from(["forces", "energy"]))
    shape = "scalar" if scheme == "energy" else draw(st.sampled_from(["scalar", "array"]))
    return {"min": lo, "max": hi, "ref": ref, "r1": r1, "r2": r2, "n": n, "mode": mode, "scheme": scheme, "update": draw(st.sampled_from(["tanh", "exp"])),
            "shape": shape, "mu": draw(fl(0.1, 5.0)), "sign": draw(st.sampled_from([-1.0, 1.0])),
            "retune_ref": draw(st.sampled_from([None, 0.2, 5.0])),
            # mode "step": the adapted delta is read after a whole step() with forces of this size (eV/A); with the
            # larger ones the bias |F|*delta/2kT saturates (documented clipping of gamma), which is not delta's business
            "force": draw(st.sampled_from([0.01, 1.0, 1e3, 1e6, 1e12])),
            # atoms of different masses (the adapted delta is a step length before any mass scaling)
            "masses": [draw(fl(1, 200)) for _ in range(4)],
            # end-to-end forces scheme: committee members that disagree on the sign of the force (coefficient s/s = 1)
            "mixed_sign": draw(st.integers(0, 3)) == 0,
            # end-to-end: the calculator publishes its committee under other result names (the class exposes the names as
            # attributes for that purpose), and/or as a plain list of member arrays
            "custom_keys": draw(st.booleans()), "as_list": draw(st.booleans())}


def variance(case, r):
    if r == "1e300":
        return 1e300
    return float(r) * case["ref"]


def make(case):
    from quansino.mc.fbmc import AdaptiveForceBias

    n = case["n"]
    atoms = Atoms("Cu" * n, positions=[[i * 2.0, 0.0, 0.0] for i in range(n)], cell=[10, 10, 10])
    if case.get("masses"):
        atoms.set_masses(case["masses"][:n])
    with warnings.catch_warnings():
        warnings.simplefilter("ignore")
        mc = AdaptiveForceBias(atoms, min_delta=case["min"], max_delta=case["max"], temperature=300.0, scheme=case["scheme"],
                               reference_variance=case["ref"], update_function=case["update"], seed=1)
    return mc, atoms


def delta_for(case, mc, atoms, v):
    n = case["n"]
    mode = case["mode"]
    with warnings.catch_warnings():
        warnings.simplefilter("ignore")
        if mode in ("direct", "step"):
            val = v if case["shape"] == "scalar" else np.full((n, 3), v)
            mc.schemes[case["scheme"]] = lambda a: val
            if mode == "direct":
                mc.update_delta()
            else:
                from vlib.calcs import FastCalc

                f = np.full((n, 3), float(case.get("force", 1.0)))
                f[:, 1] *= -1.0
                atoms.calc = FastCalc("constforce", {"forces": f.tolist()})
                atoms.set_positions([[i * 2.0, 0.0, 0.0] for i in range(n)])
                mc.step()
        elif mode == "nodata":
            atoms.calc = types.SimpleNamespace(results={})
            if case.get("retune_ref"):
                # a first fallback call with another reference variance, then the documented attribute is re-tuned
                mc.reference_variance = case["ref"] * case["retune_ref"]
                mc.update_delta()
                mc.reference_variance = case["ref"]
            mc.update_delta()
        else:
            ek, fk = "energies", "forces_comm"
            if case.get("custom_keys"):
                ek, fk = "my_energy_committee", "my_forces_committee"
                mc.energies_variance_keyword, mc.forces_variance_keyword = ek, fk
            wrap = (lambda a: [x for x in a]) if case.get("as_list") else (lambda a: a)
            if case["scheme"] == "energy":
                t = v * n
                e0 = -3.0
                atoms.calc = types.SimpleNamespace(results={ek: wrap(np.array([e0 - t, e0 + t]))})
            else:
                s = min(v, 0.999)  # two-member symmetric committee reaches coefficients below 1
                if case.get("mixed_sign") and v == 1.0:
                    s = 3.0  # members mu*(1+s), mu*(1-s) of opposite sign: std = s|mu|, mean|F| = s|mu|, coefficient exactly 1
                mu = case["mu"] * case["sign"]
                base = np.full((n, 3), mu)
                atoms.calc = types.SimpleNamespace(results={fk: wrap(np.array([base * (1 + s), base * (1 - s)]))})
            mc.update_delta()
    return np.asarray(mc.delta, dtype=float)


def run_case(case):
    labels = ["mode:" + case["mode"], "scheme:" + case["scheme"], "update:" + case["update"]]
    lo, hi, ref = case["min"], case["max"], case["ref"]
    try:
        mc, atoms = make(case)
        v1, v2 = sorted([variance(case, case["r1"]), variance(case, case["r2"])])
        mixed = False
        if case["mode"] == "end2end" and case["scheme"] == "forces":
            v1, v2 = min(v1, 0.999), min(v2, 0.999)
            if case.get("mixed_sign"):
                v2, mixed = 1.0, True  # realised by two members of opposite sign (see delta_for)
        d1 = delta_for(case, mc, atoms, v1)
        d2 = delta_for(case, mc, atoms, v2)
        d_ref = None
        if mixed:
            # the same coefficient handed over directly must give the same delta
            mc3, atoms3 = make(case)
            d_ref = delta_for(dict(case, mode="direct", shape="array"), mc3, atoms3, 1.0)
    except Exception as exc:
        return {"labels": labels + ["raised"], "nontrivial": True, "violation": {"kind": f"raises:{type(exc).__name__}", "detail": f"{case}: {exc!r}"[:400]}}
    ulp = 4 * np.spacing(hi)
    mid = 0.5 * (lo + hi)
    desc = f"min={lo!r} max={hi!r} ref={ref!r} scheme={case['scheme']} update={case['update']} mode={case['mode']} shape={case['shape']}"
    near = lambda v: v > 0 and 1e-3 <= v / ref <= 1e3  # noqa: E731
    out = {"labels": labels, "nontrivial": bool(lo < hi and (near(v1) or near(v2))),
           "key": f"{round(np.log10(lo), 1)}|{round(np.log10(hi), 1)}|{round(np.log10(ref), 1)}|{case['r1']}|{case['r2']}|{case['scheme']}|{case['update']}|{case['mode']}|{case['shape']}", "violation": None}

    def viol(kind, detail):
        out["nontrivial"] = True
        out["violation"] = {"kind": kind, "detail": f"{desc}: {detail}"}
        return out

    if d_ref is not None:
        labels.append("committee-signs-disagree")
        if d_ref.shape != d2.shape or np.any(np.abs(d_ref - d2) > 1e-6 * hi):
            return viol("sign-disagreeing-committee", f"members mu*(1+3), mu*(1-3) have std/mean|F| = 1 exactly; delta {d2.tolist()} differs from the delta for coefficient 1, {d_ref.tolist()}")
    if case["mode"] == "nodata":
        if not np.all(np.abs(d1 - mid) <= 1e-12 * max(abs(mid), 1e-300)):
            return viol("no-committee-data", f"delta={d1.tolist()} without committee data, expected the midpoint {mid!r}")
        if case["scheme"] == "forces" and d1.shape != (case["n"], 3):
            return viol("no-committee-shape", f"delta has shape {d1.shape}")
        return out
    for v, d in ((v1, d1), (v2, d2)):
        if not np.all(np.isfinite(d)):
            return viol("non-finite", f"variance {v!r} gives delta {d.tolist()}")
        if np.any(d < lo - ulp) or np.any(d > hi + ulp):
            return viol("out-of-range", f"variance {v!r} gives delta {d.tolist()} outside [{lo!r}, {hi!r}]")
        if v == 0.0 and np.any(np.abs(d - hi) > ulp):
            return viol("zero-variance-not-max", f"variance 0 gives delta {d.tolist()}, expected max_delta")
        # end-to-end: the committee arrays realise the prescribed coefficient only to ~1e-9 (cancellation)
        mtol = 1e-12 if case["mode"] in ("direct", "step") else 1e-6
        if v == ref and np.any(np.abs(d - mid) > mtol * mid):
            return viol("reference-not-midpoint", f"variance = reference gives delta {d.tolist()}, expected the midpoint {mid!r}")
        if v >= 1e6 * ref and np.any(d - lo > 1e-6 * (hi - lo) + ulp):
            return viol("large-variance-not-min", f"variance {v!r} (>= 1e6 x reference) gives delta {d.tolist()}, expected ~min_delta")
    if np.any(d1 < d2 - ulp):
        return viol("not-monotone", f"variance {v1!r} <= {v2!r} but delta {d1.tolist()} < {d2.tolist()}")
    return out


def plan(tier):
    if tier == "quick":
        return [{"part": "delta", "shards": 16, "budget": {"n_examples": 3500}}]
    return [{"part": "delta", "shards": 16, "budget": {"n_examples": 40000}}]


def run_part(part, seed, shard, nshards, budget):
    return hyp.search(case_st(), run_case, budget["n_examples"], seed, part)


def replay(part, case):
    return run_case(case)
