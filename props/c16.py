"""C16 - output files are well-formed after every write and after a crash at any point.

Fault enumeration.  A generated short GrandCanonical history (scripted verdicts: the atom count and
hence the serialized state grows and shrinks) is run with logger + restart + trajectory observers on
real files, in 'a' and 'w' mode, with or without pre-existing file content.
  no-crash : after every observer round the three files are re-read through second handles.
  crash    : the same history is replayed in a forked child whose three files are wrapped by a
             delegating object that counts write/seek/truncate/flush operations and calls os._exit()
             immediately before operation k (Python buffers are lost exactly as in a kill); the parent
             enumerates EVERY k of the history and inspects the files left behind.
"""
from __future__ import annotations

import io
import json
import os
import shutil
import tempfile
import warnings

import numpy as np
from ase import Atoms
from hypothesis import strategies as st

from vlib import hyp
from vlib.calcs import ModelCalc
from vlib.mcmachine import ScriptedCriteria

ID = "C16"
LEVEL = "fault_enumeration"
TECHNIQUE = "fault injection with exhaustive enumeration of crash points per generated history (Hypothesis generates the histories; every operation index of each history is cut in a forked child)"
RULE = (
    "history = 3-6 GrandCanonical steps with scripted accepted/rejected insertions and deletions of a 2-atom species (state grows and shrinks), file mode in {a,w}, "
    "optional pre-existing file content; every crash index k in 0..#operations of the history is executed. One evaluation = one (history, k) execution or one observer "
    "round of the no-crash run. Non-trivial = the history contains a restart write shorter than its predecessor and k falls strictly inside an observer call; "
    "distinct = (history, mode, pre-existing, k)."
)
ASSUMPTIONS = [
    "a crash is modelled between Python-level file operations (buffers lost, data handed to the OS kept); torn writes inside one write() and power loss are not modelled",
    "observers run with interval 1; file objects are ordinary buffered text files",
]
LEVEL_TEXT = (
    "Every crash point between consecutive file operations of each generated history is enumerated (fault enumeration), and every observer round of the uncrashed "
    "run is re-read through independent handles. The histories are short but make the serialized state grow and shrink, which is what truncation bugs need."
)
LEVEL_NOTE = "Trusted: os.fork/os._exit semantics for lost buffers, ase.io.read for extended XYZ, ase.io.jsonio.read_json."
DESIGN_REF = "DESIGN.md section 3, C16"

PRE = {"log": "# previous content\nold line\n", "traj": "", "restart": '{"stale": "' + "x" * 4000 + '"}'}


class CountingFile:
    """Delegating file object: counts write/seek/truncate/flush and crashes the process before operation k."""

    def __init__(self, fh, tag, shared):
        self._fh, self._tag, self._sh = fh, tag, shared

    def _op(self, name):
        sh = self._sh
        if sh["crash_at"] is not None and sh["n"] == sh["crash_at"]:
            os._exit(77)
        sh["n"] += 1
        sh["ops"].append((self._tag, name))

    def write(self, data):
        self._op("write")
        return self._fh.write(data)

    def flush(self):
        self._op("flush")
        return self._fh.flush()

    def seek(self, *a):
        self._op("seek")
        return self._fh.seek(*a)

    def truncate(self, *a):
        self._op("truncate")
        return self._fh.truncate(*a)

    def seekable(self):
        return True

    def tell(self):
        return self._fh.tell()

    def read(self, *a):
        return self._fh.read(*a)

    @property
    def closed(self):
        return self._fh.closed

    def close(self):
        return self._fh.close()


@st.composite
def case_st(draw):
    steps = draw(st.lists(st.sampled_from(["ins+", "ins+", "del+", "ins-", "del-"]), min_size=3, max_size=6))
    if "ins+" not in steps:
        steps[0] = "ins+"
    i = steps.index("ins+")
    if "del+" not in steps[i + 1:]:
        steps.append("del+")
    # initial particle number: with 1 (or 0) the history reaches the empty box, whose frame has zero atom lines
    return {"steps": steps, "mode": draw(st.sampled_from(["a", "w"])), "pre": draw(st.booleans()), "seed": draw(st.integers(0, 1000)),
            "n0": draw(st.sampled_from([3, 3, 1, 0]))}


def paths(tmp):
    return {t: os.path.join(tmp, f"{t}.out") for t in ("log", "restart", "traj")}


def prepare(tmp, case):
    p = paths(tmp)
    for t, path in p.items():
        with open(path, "w") as fh:
            fh.write(PRE[t] if case["pre"] else "")
    return p


def run_history(case, p, crash_at=None, on_round=None, wrap=True, after_close=None, before_close=None):
    """Run the history; returns the shared operation record."""
    from quansino.io.core import Observer
    from quansino.mc.gcmc import GrandCanonical
    from quansino.moves.exchange import ExchangeMove

    shared = {"n": 0, "ops": [], "crash_at": crash_at, "rounds": []}
    n0 = int(case.get("n0", 3))
    atoms = Atoms("Ar" * n0, positions=[[1, 1, 1], [3, 3, 3], [5, 5, 2]][:n0], cell=[7, 7, 7], pbc=True)
    atoms.calc = ModelCalc("pair", {"k": 0.05, "center": (3.5, 3.5, 3.5), "a": 0.4, "s": 1.6})
    if wrap:
        # (with no earlier content both modes start from an empty file, so the reference images are the same)
        fmode = "w" if (case["mode"] == "a" and not case["pre"] and case.get("seed", 0) % 2 == 0) else case["mode"]
        files = {t: CountingFile(open(path, fmode), t, shared) for t, path in p.items()}
        kw = {"logfile": files["log"], "restart_file": files["restart"], "trajectory": files["traj"]}
    else:
        kw = {"logfile": p["log"], "restart_file": p["restart"], "trajectory": p["traj"]}
    with warnings.catch_warnings():
        warnings.simplefilter("ignore")
        mc = GrandCanonical(atoms, exchange_atoms=Atoms("OH", positions=[[0, 0, 0], [0, 0, 1.0]]), temperature=300.0, number_of_exchange_particles=n0,
                            seed=case["seed"], max_cycles=1, logging_mode=case["mode"], **kw)
        mv = ExchangeMove(np.arange(n0))
        crit = ScriptedCriteria()
        mc.add_move(mv, criteria=crit, name="x")

        class Round(Observer):
            def __call__(self_inner):
                shared["rounds"].append({"n_ops": shared["n"], "step": mc.step_count, "natoms": len(atoms)})
                if on_round is not None:
                    on_round(mc, atoms, shared)

            def attach_simulation(self_inner, *a, **k):
                pass

            def close(self_inner):
                pass

        mc.file_manager.attach_observer("zz_round", Round(1))
        it = iter(case["steps"])
        for step in mc.irun(len(case["steps"])):
            s = next(it)
            mv.bias_towards_insert = 1.0 if s.startswith("ins") else 0.0
            crit.queue = [s.endswith("+")]
            for _ in step:
                pass
        if before_close is not None:
            before_close(mc)
        mc.close()
        if after_close is not None:
            after_close(mc)
    return shared


def check_round_files(p, case, r, natoms_per_round, step):
    """No-crash oracle after observer round r (0-based). Returns violation (kind, detail) or None."""
    from ase.io import read
    from ase.io.jsonio import read_json

    keep = case["pre"] and case["mode"] == "a"
    text = open(p["log"]).read()
    body = text[len(PRE["log"]):] if keep else text
    if keep and not text.startswith(PRE["log"]):
        return ("log:old-content-lost", "append mode: pre-existing log content was overwritten")
    lines = body.split("\n")
    if lines[-1] != "":
        return ("log:incomplete-line", f"round {r}: log does not end with a newline (unflushed or partial line): {lines[-1][:40]!r}")
    lines = lines[:-1]
    if len(lines) != r + 2:
        return ("log:line-count", f"round {r}: log has {len(lines)} lines, expected header + {r + 1} rows (visible without closing)")
    ncol = len(lines[0].split())
    if not lines[0].lstrip().startswith("Class") or any(len(l.split()) != ncol for l in lines[1:]):
        return ("log:malformed", f"round {r}: header/rows malformed ({[len(l.split()) for l in lines]} columns)")
    ttext = open(p["traj"]).read()
    try:
        frames = read(io.StringIO(ttext), index=":", format="extxyz")
    except Exception as exc:
        return ("traj:unparsable", f"round {r}: trajectory does not parse: {type(exc).__name__}: {exc}")
    if [len(f) for f in frames] != natoms_per_round[: r + 1]:
        return ("traj:frames", f"round {r}: trajectory frames have {[len(f) for f in frames]} atoms, expected {natoms_per_round[: r + 1]}")
    rtext = open(p["restart"]).read()
    try:
        data = read_json(io.StringIO(rtext))
        json.loads(rtext)  # exactly one document: trailing garbage makes this raise
    except Exception as exc:
        return ("restart:unparsable", f"round {r} (state {'shrank' if r and natoms_per_round[r] < natoms_per_round[r - 1] else 'grew/same'}): restart file is not one JSON document: {type(exc).__name__}: {str(exc)[:120]}")
    if data.get("attributes", {}).get("step_count") != step or len(data["atoms"]) != natoms_per_round[r]:
        return ("restart:stale", f"round {r}: restart file describes step {data.get('attributes', {}).get('step_count')} with {len(data['atoms'])} atoms, current step {step} with {natoms_per_round[r]}")
    return None


def run_case(case):
    from ase.io.jsonio import read_json

    tmp = tempfile.mkdtemp(prefix="c16_")
    labels = ["mode:" + case["mode"], "pre" if case["pre"] else "fresh"]
    keys = []
    evals = 0
    try:
        # ---------- no-crash run on paths opened by quansino itself (exercises the file mode)
        p = prepare(tmp, case)
        natoms, images, viol = [], [], []
        reopened = {}

        def on_round(mc, atoms, shared):
            if reopened.get("closed"):
                return  # rounds of a run continued after close() are judged by after_close only
            natoms.append(len(atoms))
            if not viol:
                v = check_round_files(p, case, len(natoms) - 1, natoms, mc.step_count)
                if v:
                    viol.append(v)
            images.append({t: open(path).read() for t, path in p.items()})

        def after_close(mc):
            reopened["closed"] = True
            # the user runs on after close(): whether that is refused or continues, what was written stays
            before = {t: open(path).read() for t, path in p.items() if t != "restart"}
            try:
                mc.run(1)
                reopened["outcome"] = "continued"
            except Exception as exc:
                reopened["outcome"] = "refused:" + type(exc).__name__
            try:
                mc.close()
            except Exception:
                pass
            for t, text in before.items():
                if not open(p[t]).read().startswith(text):
                    reopened["lost"] = t

        def before_close(mc):
            # a checkpoint copy: the restart observer is pointed at another file and called once more, with no step in
            # between; after the call that file holds the current state
            obs = mc.default_restart
            if obs is None:
                return
            extra = os.path.join(tmp, "checkpoint_copy.out")
            try:
                obs.file = extra
                obs()
                text = open(extra).read()
                data = read_json(io.StringIO(text))
                ok = data.get("attributes", {}).get("step_count") == mc.step_count
            except Exception as exc:
                ok, text = False, f"<{type(exc).__name__}: {exc}>"
            reopened["copy_ok"] = ok
            reopened["copy_len"] = len(text)
            reopened["closed"] = True  # the live restart path is no longer written from here on

        try:
            run_history(case, p, on_round=on_round, wrap=False, after_close=after_close, before_close=before_close)
        except Exception as exc:
            return {"labels": labels + ["raised"], "nontrivial": True, "violation": {"kind": f"run-raises:{type(exc).__name__}", "detail": repr(exc)[:300]}}
        evals += len(natoms)
        labels.append("run-after-close:" + reopened.get("outcome", "?"))
        if reopened.get("copy_ok"):
            labels.append("checkpoint-copy-written")
        if reopened.get("copy_ok") is False and not viol:
            viol.append(("restart:checkpoint-copy", f"the restart observer was pointed at another file and called (no step in between): that file ({reopened.get('copy_len')} bytes) does not hold the current state"))
        if reopened.get("lost") and not viol:
            viol.append(("run-after-close:earlier-bytes-lost", f"run after close() ({reopened.get('outcome')}): the {reopened['lost']} file no longer starts with what had been written before"))
        if 0 in natoms:
            labels.append("empty-box-visited")
        if viol:
            return {"labels": labels, "nontrivial": True, "weight": evals, "keys": ["nocrash-viol"], "violation": {"kind": "nocrash:" + viol[0][0], "detail": f"steps={case['steps']} mode={case['mode']} pre={case['pre']}: {viol[0][1]}"}}
        for r in range(1, len(images)):
            if not images[r]["traj"].startswith(images[r - 1]["traj"]) or not images[r]["log"].startswith(images[r - 1]["log"]):
                return {"labels": labels, "nontrivial": True, "weight": evals, "violation": {"kind": "nocrash:earlier-bytes-changed", "detail": f"round {r}: earlier log/trajectory bytes were modified"}}
        shrinks = any(len(images[r]["restart"]) < len(images[r - 1]["restart"]) for r in range(1, len(images)))
        if shrinks:
            labels.append("restart-shrinks")
        # ---------- reference operation log with wrapped files (same bytes expected)
        p = prepare(tmp, case)
        natoms2, viol2 = [], []

        def on_round2(mc, atoms, shared):
            natoms2.append(len(atoms))
            if not viol2:
                v = check_round_files(p, case, len(natoms2) - 1, natoms2, mc.step_count)
                if v:
                    viol2.append(v)

        ref = run_history(case, p, on_round=on_round2, wrap=True)
        evals += len(natoms2)
        if viol2:
            return {"labels": labels, "nontrivial": True, "weight": evals, "keys": ["nocrash-viol"],
                    "violation": {"kind": "nocrash-fileobject:" + viol2[0][0], "detail": f"steps={case['steps']} mode={case['mode']} pre={case['pre']} (files passed as open file objects): {viol2[0][1]}"}}
        ops = ref["ops"]
        total = len(ops)
        for t, path in p.items():
            if open(path).read() != images[-1][t]:
                return {"labels": labels, "nontrivial": True, "weight": evals, "violation": {"kind": "harness:wrapped-differs", "detail": f"{t} file differs between path-opened and wrapped runs"}}
        # ---------- crash enumeration
        round_end = [r["n_ops"] for r in ref["rounds"]]
        excluded = 0
        for k in range(total + 1):
            p = prepare(tmp, case)
            pid = os.fork()
            if pid == 0:
                try:
                    run_history(case, p, crash_at=k, wrap=True)
                    os._exit(0)
                except BaseException:
                    os._exit(3)
            _, status = os.waitpid(pid, 0)
            code = os.waitstatus_to_exitcode(status)
            evals += 1
            if code not in (0, 77):
                return {"labels": labels, "nontrivial": True, "weight": evals, "violation": {"kind": "crash-run:unexpected-exit", "detail": f"child exited with {code} at crash index {k}"}}
            done = {t: sum(1 for (tt, op) in ops[:k] if tt == t and op == "flush") for t in ("log", "restart", "traj")}
            inside = k < total and k not in round_end and k != 0
            where = f"steps={case['steps']} mode={case['mode']} pre={case['pre']} crash before operation {k}/{total} ({ops[k] if k < total else 'end'})"
            for t in ("log", "traj"):
                got = open(p[t]).read()
                want = images[done[t] - 1][t] if done[t] else (PRE[t] if case["pre"] and case["mode"] == "a" else "")
                if not got.startswith(want):
                    return {"labels": labels, "nontrivial": True, "weight": evals, "keys": [f"crashviol|{k}"],
                            "violation": {"kind": f"crash:{t}-lost-completed-output", "detail": f"{where}: {t} file no longer starts with the {done[t]} completed records"}}
            if done["restart"] >= 1:
                # is a restart rewrite in flight (its truncate executed, its flush not yet)?
                last_trunc = max((i for i in range(k) if ops[i] == ("restart", "truncate")), default=None)
                in_window = last_trunc is not None and not any(ops[i] == ("restart", "flush") for i in range(last_trunc, k))
                # the recorded finding is the window of the shipped sequence truncate -> write -> flush: a crash before
                # that write or before that flush (offsets 1 and 2 after the truncate); anything later is another history
                offset = (k - last_trunc) if in_window else 0
                if in_window and offset <= 2 and case.get("excl_window"):
                    excluded += 1
                else:
                    rtext = open(p["restart"]).read()
                    ok_steps = {ref["rounds"][i]["step"] for i in range(len(ref["rounds"]))}
                    try:
                        data = read_json(io.StringIO(rtext))
                        good = data.get("attributes", {}).get("step_count") in ok_steps
                    except Exception:
                        good = False
                    if not good:
                        return {"labels": labels + ["restart-unloadable"], "nontrivial": True, "weight": evals, "keys": [f"crashviol|{k}"], "excluded_known": excluded,
                                "violation": {"kind": "crash:restart-unloadable:" + (("rewrite-window" if offset <= 2 else f"rewrite-window+{min(offset, 3)}-or-later") if in_window else "outside-rewrite"),
                                              "detail": f"{where}: {done['restart']} restart writes had completed, but the file left behind ({len(rtext)} bytes) does not load to a saved state"}}
            if shrinks and inside:
                keys.append(f"{'.'.join(case['steps'])}|{case['mode']}|{case['pre']}|{k}")
        labels.append(f"ops:{(total // 25) * 25}+")
        return {"labels": labels, "nontrivial": bool(keys), "keys": keys, "weight": evals, "violation": None, "excluded_known": excluded,
                "summary": {"operations": total, "ops_head": [f"{t}:{o}" for t, o in ops[:14]]}}
    finally:
        shutil.rmtree(tmp, ignore_errors=True)


def _restart_window(part, kind, case):
    return kind == "crash:restart-unloadable:rewrite-window"


KNOWN = {
    "restart-truncate-window": {
        "text": "RestartObserver rewrites the live file in place (seek(0); truncate(); write; flush): a crash between the truncate and the final flush leaves an empty or partial restart file although earlier restart writes had completed",
        "match": _restart_window,
    },
}


def plan(tier):
    if tier == "quick":
        return [{"part": "faults", "shards": 16, "budget": {"n_examples": 6}}]
    return [{"part": "faults", "shards": 16, "budget": {"n_examples": 60}}]


def run_part(part, seed, shard, nshards, budget):
    flag = "restart-truncate-window" in budget.get("known_active", [])
    return hyp.search(case_st().map(lambda c: dict(c, excl_window=flag)), run_case, budget["n_examples"], seed, part, shrink=False, skip_zero=True)


def replay(part, case):
    return run_case(case)
