"""C07 - restarting from any saved step continues the same trajectory.

For a generated configuration (ensemble, move table from the + / * grammar with the shipped criteria,
seed, n steps) the reference run writes the default restart file (interval 1, real file) and a harness
observer registered after it copies the file bytes after every write.  For EVERY k the bytes are loaded
with ase.io.jsonio.read_json, the simulation is rebuilt in the documented way
(`Cls.from_dict(data)`, re-attach a fresh calculator) and run for the remaining n-k steps; every
per-step record must equal the reference's.
"""
from __future__ import annotations

import io
import os
import shutil
import tempfile
import warnings

import numpy as np
from ase import Atoms
from hypothesis import strategies as st

from vlib import hyp, mcmachine as M
from vlib import systems as S
from vlib.calcs import ModelCalc
from vlib.gen import fl, log10_floats

ID = "C07"
LEVEL = "exploration"
TECHNIQUE = "property-based differential testing (Hypothesis) with exhaustive enumeration of restart points per generated run: resumed run vs uninterrupted run, bitwise"
RULE = (
    "case = (ensemble in Canonical/HamiltonianCanonical/Isobaric/Isotension/GrandCanonical, table from the + / * grammar incl. masked deformations, composite "
    "operations, molecular exchange, shipped criteria, seed, n in 4..9, cycles per step 1..3); every restart point k in 0..n-1 is replayed. "
    "Non-trivial = a restart point k>=1 whose remaining segment contains at least one accepted and one rejected trial; distinct = (ensemble, table shape, n, k)."
)
ASSUMPTIONS = [
    "calculators are pure functions with a fixed summation order (bitwise comparison); the calculator is re-attached by the user after from_dict, as documented",
    "the resumed run's own serialized dictionary is not compared byte-for-byte with the reference's (cached calculator results may legitimately hold other keys)",
    "table entries in which an exchange move is followed by another label-bearing move are not generated (recorded finding of C03/C05)",
    "ForceBias accepts restart_file but offers no from_dict: recorded finding forcebias-restart, not generated while it is listed",
]
LEVEL_TEXT = (
    "Bounded differential exploration with every restart point of every generated run enumerated: any piece of state that is not serialized, not restored or "
    "restored under another name makes the resumed trajectory diverge from the uninterrupted one at some k."
)
LEVEL_NOTE = "Trusted: ase.io.jsonio read_json/write_json, numpy PCG64 state round trip, byte comparison of arrays."
DESIGN_REF = "DESIGN.md section 3, C07"


@st.composite
def case_st(draw, allow_fbmc=False):
    if allow_fbmc and draw(st.integers(0, 9)) == 0:
        return {"fbmc": True, "seed": draw(st.integers(0, 2 ** 32)), "n": draw(st.integers(2, 5))}
    scn = draw(M.scenario(exclude=("multi-exchange", "fixatoms-deletion"), constraints=True, extra_arrays=True, max_entries=3, default_labels=True))
    scn["seed"] = draw(st.integers(0, 2 ** 40))
    scn["temperature"] = draw(log10_floats(2.7, 4))
    scn["mu"] = draw(fl(-0.5, 0.5))
    # None = the drivers' default (the atom count at construction time - which a grand-canonical run then leaves behind)
    scn["max_cycles"] = draw(st.one_of(st.integers(1, 3), st.integers(1, 3), st.none()))
    scn["n_exchange"] = max(scn.get("n_exchange", 0), 1)
    scn["external_stress"] = [[draw(fl(-0.05, 0.05)) for _ in range(3)] for _ in range(3)]
    scn["table"] = [[draw(st.integers(1, 2)), draw(fl(0.2, 2.0)), 0] for _ in scn["entries"]]
    scn["table"][0][0] = 1
    scn["calc"] = "fast"
    # entry names in a generated (generally non-alphabetical) order: the table order is part of the state
    scn["names"] = list(draw(st.permutations(["zeta", "alpha", "mid", "beta"])))
    if draw(st.integers(0, 2)) == 0:
        # the drivers' own default entry names, with user-tuned weights
        scn["names"] = list(draw(st.permutations(["default_displacement_move", "default_cell_move", "default_exchange_move", "zeta"])))
    scn.pop("alias_of", None)
    k = 0
    for e in scn["entries"]:
        for leaf in S.expr_leaves(e):
            if leaf.get("t") == "disp":
                k += 1
                if (scn["seed"] + k) % 4 == 0:
                    leaf["apply_constraints"] = False  # documented option: the move may displace constrained atoms
    # accessible volume re-tuned by the user (grand canonical only): a fraction of the cell volume
    return {"scn": scn, "n": draw(st.integers(4, 9)), "vacc": draw(st.sampled_from([None, 0.3, 2.5]))}


def record(mc, atoms):
    labs = []

    def leaves(m):
        subs = getattr(m, "moves", None)
        if isinstance(subs, list):
            for sub in subs:  # with multiplicity: object identity is not preserved by serialization
                leaves(sub)
        else:
            lab = getattr(m, "labels", None)
            labs.append(None if lab is None else np.asarray(lab).tolist())

    for name in mc.moves:
        leaves(mc.moves[name].move)
    ctx = mc.context
    return {
        "positions": atoms.positions.tobytes(), "cell": atoms.cell.array.tobytes(), "numbers": atoms.numbers.tobytes(),
        "momenta": atoms.get_momenta().tobytes(),
        "energy": repr(ctx.last_potential_energy), "history": repr(list(mc.move_history)), "labels": repr(labs),
        "nex": repr(getattr(ctx, "number_of_exchange_particles", None)), "step": mc.step_count,
        "rng": repr(mc._rng.bit_generator.state),
    }


def run_case(case):
    from ase.io.jsonio import read_json

    from quansino.io.core import Observer

    if case.get("fbmc"):
        return run_fbmc(case)
    scn, n = case["scn"], case["n"]
    from props.c03 import shape

    labels = ["ens:" + scn["ensemble"]]
    tmp = tempfile.mkdtemp(prefix="c07_")
    path = os.path.join(tmp, "restart.json")
    try:
        images = []
        ref = []
        try:
            with warnings.catch_warnings():
                warnings.simplefilter("ignore")
                mc, atoms, _ = M.build_simulation(scn, criteria="real", extra_kw={"restart_file": path})
                if case.get("vacc") and scn["ensemble"] == "GrandCanonical":
                    mc.accessible_volume = float(case["vacc"]) * float(atoms.get_volume())
                    labels.append("accessible-volume-set")

                class Copy(Observer):
                    def __call__(self):
                        with open(path, "rb") as fh:
                            images.append(fh.read())

                    def attach_simulation(self, *a, **k):
                        pass

                    def close(self):
                        pass

                mc.file_manager.attach_observer("zz_copy", Copy(1))
                for _ in mc.srun(n):
                    ref.append(record(mc, atoms))
                mc.close()
        except Exception as exc:
            kind = type(exc).__name__
            return {"labels": labels + ["reference-raised:" + kind], "nontrivial": True, "key": scn["ensemble"] + "|ref-raise",
                    "violation": {"kind": f"reference-run-raises:{scn['ensemble']}:{kind}", "detail": f"running {scn['ensemble']} with the default restart observer raised {kind}: {str(exc)[:300]}"}}
        if len(images) != n + 1:
            return {"labels": labels, "nontrivial": True, "violation": {"kind": "restart-writes", "detail": f"{len(images)} restart writes observed for {n} steps (expected {n + 1})"}}
        keys = []
        nontrivial = False
        cls = type(mc)
        for k in range(n):
            try:
                with warnings.catch_warnings():
                    warnings.simplefilter("ignore")
                    data = read_json(io.StringIO(images[k].decode()))
                    if (k + case.get("n", 0)) % 3 == 0:
                        # the loaded dictionary is the user's: a first simulation rebuilt from it (and run) must not
                        # change what a second rebuild from the same dictionary gives
                        first = cls.from_dict(data)
                        first.atoms.calc = M.fresh_calc_like(scn["calc"], scn["atoms"])
                        for _ in first.srun(min(2, n - k)):
                            pass
                        first.close()
                        if "rebuilt-twice-from-one-dictionary" not in labels:
                            labels.append("rebuilt-twice-from-one-dictionary")
                    sim = cls.from_dict(data)
                    sim.atoms.calc = M.fresh_calc_like(scn["calc"], scn["atoms"])
                    got = []
                    for _ in sim.srun(n - k):
                        got.append(record(sim, sim.atoms))
                    sim.close()
            except Exception as exc:
                kind = type(exc).__name__
                return {"labels": labels + ["restart-raised"], "nontrivial": True, "keys": [f"{scn['ensemble']}|raise"],
                        "violation": {"kind": f"restart-raises:{scn['ensemble']}:{kind}", "detail": f"{scn['ensemble']} (table {','.join(shape(e) for e in scn['entries'])}): restart from the file written at step {k} raised {kind}: {str(exc)[:300]}"}}
            want = ref[k:]
            for j, (g, w) in enumerate(zip(got, want)):
                diff = [f for f in w if g[f] != w[f]]
                if diff:
                    return {"labels": labels + ["diverged"], "nontrivial": True, "keys": [f"{scn['ensemble']}|div"],
                            "violation": {"kind": f"restart-diverges:{scn['ensemble']}:{diff[0]}",
                                          "detail": f"{scn['ensemble']} (table {','.join(shape(e) for e in scn['entries'])}): restarted at step {k}, step {k + j + 1} differs from the uninterrupted run in {diff}"}}
            hist = "".join(r["history"] for r in want)
            if k >= 1 and "True" in hist and "False" in hist:
                nontrivial = True
                keys.append(f"{scn['ensemble']}|{','.join(shape(e) for e in scn['entries'])}|{n}|{k}")
        return {"labels": labels + [f"restart-points:{n}"], "nontrivial": nontrivial, "keys": keys, "violation": None, "weight": n}
    finally:
        shutil.rmtree(tmp, ignore_errors=True)


def run_fbmc(case):
    from quansino.mc.fbmc import ForceBias

    tmp = tempfile.mkdtemp(prefix="c07_")
    try:
        atoms = Atoms("Cu2", positions=[[1, 1, 1], [3, 3, 3]], cell=[6, 6, 6])
        atoms.calc = ModelCalc("harmonic", {"k": 0.5, "center": (3.0, 3.0, 3.0)})
        try:
            with warnings.catch_warnings():
                warnings.simplefilter("ignore")
                mc = ForceBias(atoms, delta=0.1, temperature=500.0, seed=case["seed"], restart_file=os.path.join(tmp, "r.json"))
                mc.run(case["n"])
                ok = hasattr(type(mc), "from_dict")
                mc.close()
        except Exception as exc:
            return {"labels": ["fbmc"], "nontrivial": True, "key": "fbmc|raise",
                    "violation": {"kind": "fbmc-restart:" + type(exc).__name__, "detail": f"ForceBias(restart_file=...) cannot write its restart file: {type(exc).__name__}: {str(exc)[:200]}"}}
        if not ok:
            return {"labels": ["fbmc"], "nontrivial": True, "key": "fbmc|nofromdict", "violation": {"kind": "fbmc-restart:no-from_dict", "detail": "ForceBias offers a restart file but no from_dict"}}
        return {"labels": ["fbmc"], "nontrivial": False, "violation": None}
    finally:
        shutil.rmtree(tmp, ignore_errors=True)


KNOWN = {
    "forcebias-restart": {
        "text": "ForceBias / AdaptiveForceBias accept restart_file but define neither todict nor from_dict: the first restart write raises (ASE's encoder cannot serialize the driver) and no restart is possible",
        "match": lambda part, kind, case: bool(case.get("fbmc")) and kind.startswith("fbmc-restart"),
    },
}


def plan(tier):
    if tier == "quick":
        return [{"part": "restart", "shards": 16, "budget": {"n_examples": 220}}]
    return [{"part": "restart", "shards": 16, "budget": {"n_examples": 3000}}]


def run_part(part, seed, shard, nshards, budget):
    allow_fbmc = "forcebias-restart" not in budget.get("known_active", [])
    res = hyp.search(case_st(allow_fbmc=allow_fbmc), run_case, budget["n_examples"], seed, part, max_kinds=4)
    if not allow_fbmc:
        res["excluded_known"] += 1
        res["notes"].append("ForceBias restart cases not generated (finding forcebias-restart listed); the corpus replay reports it")
    return res


def replay(part, case):
    return run_case(case)
