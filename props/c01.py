"""C01 - ensembles reproduce the exact averages of analytically solvable systems.

Long chains through the real drivers (srun) on solvable systems, compared with closed forms:
  harmonic canonical (Ball / Box / Sphere / composite operation / move*2 / moveA+moveB / Hamiltonian):
        <E_pot> = (3N/2) kT, Var = (3N/2) (kT)^2
  rigid dipole in a uniform field (Rotation / TranslationRotation): <cos theta> = coth x - 1/x, bond rigid
  ideal gas, isobaric (cell moves, optionally mixed with displacements): <V> = (N+1) kT/P, V ~ Gamma(N+1, kT/P)
  ideal gas, grand canonical (atomic / diatomic, cubic / triclinic): N ~ Poisson(V e^{mu/kT}/Lambda^3),
        positions uniform in the cell, molecular orientations uniform on the sphere.
Decision rule: batch-means z-score above 6 AND a relative deviation above a stated floor; distribution
tests (KS / chi-square) on thinned samples at alpha = 1e-7.
"""
from __future__ import annotations

import math
import warnings

import numpy as np
import scipy.constants as sc
from ase import Atoms
from ase.units import kB
from hypothesis import strategies as st
from scipy import stats

from vlib import hyp
from vlib.calcs import FastCalc
from vlib.gen import fl, log10_floats

ID = "C01"
LEVEL = "exploration"
TECHNIQUE = "property-based statistical testing: Hypothesis draws thermodynamic parameters/proposals/seeds, long chains through the real drivers are compared with closed-form statistical mechanics (batch-means z-tests with effect-size floor, KS / chi-square at fixed alpha)"
RULE = (
    "case = (scenario out of 17 scenario x proposal kinds (one of them with some particles held by FixAtoms), seed, temperature / spring constant / field / pressure / chemical potential / particle number / proposal size drawn by Hypothesis, chain length). "
    "Non-trivial = acceptance rate within (0.05, 0.95) and effective sample size >= 500 (batch means); a chain with ESS < 50 is reported inconclusive (the z-test itself stays valid for poorly mixing chains because the batch-means standard error grows with the autocorrelation). "
    "distinct = (scenario, N, rounded parameters, seed)."
)
ASSUMPTIONS = [
    "statistical decision: a violation needs |z| > 6 (batch means, >= 40 batches after 10% burn-in) and a relative deviation above the floor (2% means, 8% variances, 0.02 absolute for <cos theta>); biases below the floor pass",
    "distribution tests use thinned samples (thinning >= twice the estimated integrated autocorrelation time) at alpha = 1e-7",
    "kT uses ase.units.kB; the thermal wavelength is computed independently from scipy CODATA constants",
    "'every seed' is sampled, not enumerated",
]
LEVEL_TEXT = (
    "A statistical decision with stated power, not a proof of the limit statement: each generated chain is compared with an exact result of statistical mechanics that shares no code with "
    "quansino. Wrong acceptance ratios, asymmetric or non-uniform proposals, state not restored on rejection and biased particle selection all shift these averages by far more than the floor."
)
LEVEL_NOTE = "Trusted: closed-form results (equipartition, Langevin function, Gamma volume law, Poisson particle number), batch-means standard errors, scipy.stats."
DESIGN_REF = "DESIGN.md section 3, C01"

AMU = sc.physical_constants["atomic mass constant"][0]
SCENARIOS = [
    "harm:Ball", "harm:Box", "harm:Sphere", "harm:CompOp", "harm:mulN", "harm:add", "harm:HMC", "dipole:Rotation", "dipole:TransRot",
    "npt:cell", "npt:cell+disp", "gc:atomic:cubic", "gc:atomic:tri+disp", "gc:diatomic:cubic", "gc:diatomic:tri", "harm:HMC2", "harm:HMC+Ball",
]


def lambda3(mass_amu, T):
    lam = sc.h / math.sqrt(2.0 * math.pi * mass_amu * AMU * sc.k * T) * 1e10
    return lam ** 3


@st.composite
def case_st(draw, scenario, steps):
    c = {"scenario": scenario, "seed": draw(st.integers(0, 2 ** 32)), "steps": steps}
    kind = scenario.split(":")[0]
    c["T"] = draw(fl(50, 2000))
    # optional first stage: the simulation is built and run at another temperature (and pressure / chemical
    # potential), then re-tuned through its public setters; the sampled stage must obey the new parameters.
    # Two scenarios always take this route so that every quick run contains it.
    always = scenario in ("gc:atomic:cubic", "gc:diatomic:tri", "npt:cell+disp", "harm:Box", "dipole:TransRot")
    c["T0"] = draw(fl(50, 2000)) if (always or draw(st.booleans())) else None
    c["pre"] = draw(st.integers(200, 3000))
    if kind == "harm":
        # composite proposals need at least two particles to displace more than one label per trial
        kind2 = scenario.split(":")[1]
        c["N"] = draw(st.integers(4, 8)) if kind2 == "mulN" else draw(st.integers(2, 4)) if (kind2 == "add" or kind2.startswith("HMC")) else draw(st.integers(1, 4))  # Hamiltonian scenarios: atoms of different masses
        c["k"] = draw(log10_floats(-1, 1.3))
        c["size"] = draw(fl(1.2, 3.0)) if kind2 == "mulN" else draw(fl(0.5, 3.0))  # in thermal widths sqrt(kT/k)
        # dt * omega_max (velocity Verlet is stable below 2); the second Hamiltonian scenario uses large steps so
        # that rejected trajectories - and whatever they leave behind - are frequent
        # HMC2 / HMC+Ball: 10-50 % of the trajectories rejected, chain still mixing (measured: a stale-force integrator
        # biases <E> by 5-15 % there; above dt*omega ~ 1.3 it merely freezes the chain, which proves nothing)
        rough = scenario.endswith("HMC2") or scenario.endswith("HMC+Ball")
        c["dtw"] = draw(fl(0.95, 1.2)) if rough else draw(fl(0.5, 1.7))
        c["nsteps"] = draw(st.integers(3, 8)) if rough else draw(st.integers(3, 15))
        c["masses"] = [draw(fl(1, 100)) for _ in range(8)]
        # HMC2: some of the particles are held by FixAtoms; the free ones still have (3/2) kT each
        c["nfix"] = draw(st.integers(0, c["N"] - 1)) if kind2 == "HMC2" else 0
        if kind2.startswith("HMC"):
            # A fixed trajectory length close to a multiple of half the period of some atom maps that atom's x to +-x:
            # its potential energy then (nearly) never changes and a correct chain mixes arbitrarily slowly.  Choose
            # the number of integration steps away from these resonances for every atom (a property of HMC, not of quansino).
            mm = c["masses"][: c["N"]]
            for ns in list(range(c["nsteps"], c["nsteps"] + 12)):
                if not hmc_resonant(mm, c["dtw"], ns):
                    c["nsteps"] = ns
                    break
    elif kind == "dipole":
        c["x"] = draw(fl(0.3, 5.0))
        c["d"] = draw(fl(0.8, 1.6))
        c["masses"] = [draw(fl(1, 50)), draw(fl(1, 50))]
    elif kind == "npt":
        c["N"] = draw(st.integers(1, 5))
        c["V0"] = draw(fl(300, 3000))
        c["size"] = draw(fl(0.05, 0.4))
        c["meanV"] = draw(fl(300, 3000))
        c["lh"] = scenario.endswith("+disp") or draw(st.booleans())  # left-handed lattice (negative determinant)
    else:
        c["target"] = draw(st.one_of(fl(0.3, 8.0), fl(0.3, 1.5)))  # low occupancies visit the empty box
        c["L"] = draw(fl(8.0, 14.0))
        c["shear"] = [draw(fl(-0.3, 0.3)) for _ in range(3)]
        c["n0"] = draw(st.integers(0, 4))
        c["bond"] = draw(fl(0.8, 1.5))
        c["lh"] = draw(st.booleans())
    return c


def hmc_resonant(masses, dtw, nsteps):
    """True when the fixed trajectory length is within 12 % of a multiple of half the period of some atom (harmonic
    wells, dt*omega given for the lightest atom): that atom's x is mapped to about +-x, its potential energy hardly
    changes from one trajectory to the next and a correct chain mixes arbitrarily slowly (a property of HMC itself)."""
    for m_i in masses:
        phase = nsteps * dtw * math.sqrt(min(masses) / m_i)
        if phase > 0.3 and abs(phase / math.pi - round(phase / math.pi)) < 0.12:
            return True
    return False


# ------------------------------------------------------------------ statistics helpers
def batch_z(x, expected, nb=40):
    x = np.asarray(x, dtype=float)
    n = len(x) // nb * nb
    b = x[:n].reshape(nb, -1).mean(axis=1)
    se = b.std(ddof=1) / math.sqrt(nb)
    mean = x[:n].mean()
    var = x[:n].var()
    ess = var / (se ** 2) if se > 0 else float(len(x))
    z = (mean - expected) / se if se > 0 else 0.0
    # batch means are an honest error bar only if the batches are (nearly) independent: correlated neighbouring batches
    # mean the chain mixes on the scale of a batch or slower - such a chain is inconclusive, whatever its z
    d = b - b.mean()
    r1 = float((d[:-1] * d[1:]).sum() / (d * d).sum()) if (d * d).sum() > 0 else 0.0
    if r1 > 0.4:
        ess = 0.0
    return mean, se, z, ess


def tau_int(x):
    x = np.asarray(x, dtype=float) - np.mean(x)
    n = len(x)
    if x.var() == 0:
        return 1.0
    f = np.fft.rfft(x, 2 * n)
    acf = np.fft.irfft(f * np.conj(f))[:n]
    acf /= acf[0]
    tau = 1.0
    for k in range(1, n // 10):
        if acf[k] < 0.05:
            break
        tau += 2 * acf[k]
    return max(tau, 1.0)


def verdict(out, kind, name, mean, se, z, expected, floor_rel=None, floor_abs=None, desc=""):
    dev = abs(mean - expected)
    big = dev > (floor_abs if floor_abs is not None else floor_rel * abs(expected))
    out.setdefault("summary", {})[name] = {"mean": float(mean), "se": float(se), "expected": float(expected), "z": float(z)}
    if abs(z) > 6 and big:
        out["violation"] = {"kind": kind, "detail": f"{desc}: {name} = {mean:.5g} +- {se:.2g}, exact value {expected:.5g} (z = {z:.1f}, deviation {100 * dev / max(abs(expected), 1e-300):.1f}%)"}
        return True
    return False


# ------------------------------------------------------------------ scenarios
def prestage(mc, c, out, **setters):
    """Run the first stage at the construction parameters, then re-tune through the public setters."""
    if not c.get("T0"):
        return
    for _ in mc.srun(int(c.get("pre", 500))):
        pass
    for name, value in setters.items():
        setattr(mc, name, value)
    out["labels"].append("retuned-after-first-stage")


def run_harm(c, out):
    from quansino.integrators.displacement import Verlet
    from quansino.mc.canonical import Canonical, HamiltonianCanonical
    from quansino.moves.displacement import DisplacementMove, HamiltonianDisplacementMove
    from quansino.operations.displacement import Ball, Box, Sphere

    prop = c["scenario"].split(":")[1]
    N, T, k = c["N"], c["T"], c["k"]
    kT = kB * T
    w = math.sqrt(kT / k)
    s = c["size"] * w
    atoms = Atoms("H" * N, positions=np.full((N, 3), 5.0) + np.arange(N)[:, None] * 0.01, cell=[10, 10, 10])
    atoms.set_masses(c["masses"][:N])
    atoms.calc = FastCalc("harmonic", {"k": k, "center": (5.0, 5.0, 5.0)})
    labels = np.arange(N)
    nfix = int(c.get("nfix") or 0)
    e_fixed = 0.0
    if nfix:
        from ase.constraints import FixAtoms

        atoms.set_constraint(FixAtoms(indices=list(range(nfix))))
        e_fixed = float(0.5 * k * ((atoms.positions[:nfix] - 5.0) ** 2).sum())  # constant contribution of the held particles
        out["labels"].append("some-particles-fixed")
    with warnings.catch_warnings():
        warnings.simplefilter("ignore")
        if prop.startswith("HMC"):
            mc = HamiltonianCanonical(atoms, temperature=c.get("T0") or T, max_cycles=1, seed=c["seed"])
            omega = math.sqrt(k / min(c["masses"][:N]))
            from ase.units import fs

            mc.add_move(HamiltonianDisplacementMove(operation=Verlet(dt=c["dtw"] / (omega * fs), max_steps=c["nsteps"])), name="hmc")
            if prop == "HMC+Ball":
                # both proposal kinds in one Hamiltonian run, each judged by the driver's default criteria
                mc.add_move(DisplacementMove(labels, Ball(s)), name="d")
        else:
            mc = Canonical(atoms, temperature=c.get("T0") or T, max_cycles=1, seed=c["seed"])
            from quansino.mc.criteria import CanonicalCriteria

            if prop == "Ball":
                mv = DisplacementMove(labels, Ball(s))
            elif prop == "Box":
                mv = DisplacementMove(labels, Box(s))
            elif prop == "Sphere":
                mv = DisplacementMove(labels, Sphere(s))
            elif prop == "CompOp":
                mv = DisplacementMove(labels, Ball(s) + Box(0.5 * s))
            elif prop == "mulN":
                # one composite trial displaces every particle once (n = N sub-moves of the same move object)
                mv = DisplacementMove(labels, Ball(s)) * N
            else:
                mv = DisplacementMove(labels, Ball(s)) + DisplacementMove(labels, Box(0.7 * s))
            if prop in ("Ball", "Sphere", "CompOp"):
                mc.add_move(mv, name="d")  # the driver's default criteria for the move's type
            else:
                mc.add_move(mv, criteria=CanonicalCriteria(), name="d")
        e = np.empty(c["steps"])
        acc = 0
        from vlib.calcs import model_energy_forces

        if prop.startswith("HMC"):
            # An integrator is (dt, number of steps) and nothing else: a chain whose Hamiltonian move gets a newly built
            # integrator before every trial must be the very same chain.  (A stale cache inside the integrator biases the
            # averages only erratically - or freezes the chain, which the statistics must call inconclusive.)
            def twin(fresh_each_trial):
                a2 = Atoms("H" * N, positions=np.full((N, 3), 5.0) + np.arange(N)[:, None] * 0.01, cell=[10, 10, 10])
                a2.set_masses(c["masses"][:N])
                a2.calc = FastCalc("harmonic", {"k": k, "center": (5.0, 5.0, 5.0)})
                if nfix:
                    a2.set_constraint(FixAtoms(indices=list(range(nfix))))
                m2 = HamiltonianCanonical(a2, temperature=T, max_cycles=1, seed=c["seed"])
                hm = HamiltonianDisplacementMove(operation=Verlet(dt=c["dtw"] / (omega * fs), max_steps=c["nsteps"]))
                m2.add_move(hm, name="hmc")
                if prop == "HMC+Ball":
                    m2.add_move(DisplacementMove(labels, Ball(s)), name="d")
                rows = []
                for _i in range(600):
                    if fresh_each_trial:
                        hm.operation = Verlet(dt=c["dtw"] / (omega * fs), max_steps=c["nsteps"])
                    for _ in m2.srun(1):
                        pass
                    rows.append(a2.positions.tobytes())
                return rows

            ra, rb = twin(False), twin(True)
            if ra != rb:
                first = next(i for i, (x, y) in enumerate(zip(ra, rb)) if x != y)
                out["violation"] = {"kind": "hmc-depends-on-integrator-history:" + prop,
                                    "detail": f"{c['scenario']} N={N} seed={c['seed']} dt*omega={c['dtw']:.3g}: the chain differs from step {first + 1} on when the move's integrator is replaced by a newly built, identical one before every trial"}
                out["acc"], out["ess"] = 0.5, 0.0
                return

        prestage(mc, c, out, temperature=T)

        for i, _ in enumerate(mc.srun(c["steps"])):
            e[i] = mc.context.last_potential_energy
            acc += 1 if mc.move_history and mc.move_history[-1][1] else 0
            if i % 50 == 0:
                # the sampled observable must be the energy of the configuration the chain is actually in
                true_e = model_energy_forces("harmonic", atoms.positions, None, None, {"k": k, "center": (5.0, 5.0, 5.0)})[0]
                if abs(true_e - e[i]) > 1e-9 * max(1.0, abs(true_e)):
                    out["violation"] = {"kind": "carried-energy-not-of-configuration:" + prop,
                                        "detail": f"{c['scenario']} N={N} seed={c['seed']}: after step {i} the simulation carries E={e[i]!r} but the positions have E={true_e!r}"}
                    out["acc"], out["ess"] = 0.5, 0.0
                    return
    burn = c["steps"] // 10
    x = (e[burn:] - e_fixed) / kT
    n_free = N - nfix
    desc = f"{c['scenario']} N={N} ({nfix} held by FixAtoms) T={T:.4g} k={k:.4g} step={c['size']:.3g} thermal widths seed={c['seed']}"
    mean, se, z, ess = batch_z(x, 1.5 * n_free)
    if prop.startswith("HMC") and hmc_resonant(c["masses"][:N], c["dtw"], c["nsteps"]):
        out["labels"].append("hmc-trajectory-length-resonant")
        ess = 0.0  # inconclusive by construction (see hmc_resonant); the twin-chain oracle above does not depend on mixing
    out["acc"], out["ess"] = acc / c["steps"], ess
    if ess < 50:
        return
    if verdict(out, "harmonic-mean-energy:" + prop, "<E>/kT", mean, se, z, 1.5 * n_free, floor_rel=0.02, desc=desc):
        return
    v = (x - x.mean()) ** 2
    mean, se, z, _ = batch_z(v, 1.5 * n_free)
    verdict(out, "harmonic-energy-variance:" + prop, "Var(E)/kT^2", mean, se, z, 1.5 * n_free, floor_rel=0.08, desc=desc)


def run_dipole(c, out):
    from quansino.mc.canonical import Canonical
    from quansino.moves.displacement import DisplacementMove
    from quansino.operations.displacement import Rotation, TranslationRotation

    prop = c["scenario"].split(":")[1]
    T, x, d = c["T"], c["x"], c["d"]
    kT = kB * T
    q = 1.0
    field = x * kT / (q * d)
    atoms = Atoms("HF", positions=[[5, 5, 5], [5 + d, 5, 5]], cell=[10, 10, 10], pbc=True)
    atoms.set_masses(c["masses"])
    atoms.calc = FastCalc("dipole", {"q": q, "field": field})
    with warnings.catch_warnings():
        warnings.simplefilter("ignore")
        mc = Canonical(atoms, temperature=c.get("T0") or T, max_cycles=1, seed=c["seed"])
        mc.add_move(DisplacementMove([0, 0], Rotation() if prop == "Rotation" else TranslationRotation()), name="r")
        cs = np.empty(c["steps"])
        acc = 0
        worst = 0.0
        prestage(mc, c, out, temperature=T)
        for i, _ in enumerate(mc.srun(c["steps"])):
            b = atoms.positions[0] - atoms.positions[1]
            L = math.sqrt(b @ b)
            worst = max(worst, abs(L - d))
            cs[i] = b[2] / L
            acc += 1 if mc.move_history[-1][1] else 0
    desc = f"{c['scenario']} x=pE/kT={x:.3g} T={T:.4g} seed={c['seed']}"
    if worst > 1e-8:
        out["violation"] = {"kind": "dipole-not-rigid", "detail": f"{desc}: bond length drifted by {worst:.3e}"}
        return
    burn = c["steps"] // 10
    expected = 1.0 / math.tanh(x) - 1.0 / x
    mean, se, z, ess = batch_z(cs[burn:], expected)
    out["acc"], out["ess"] = acc / c["steps"], ess
    if ess < 50:
        return
    verdict(out, "dipole-orientation:" + prop, "<cos theta>", mean, se, z, expected, floor_abs=0.02, desc=desc)


def run_npt(c, out):
    from quansino.mc.isobaric import Isobaric
    from quansino.moves.cell import CellMove
    from quansino.moves.displacement import DisplacementMove
    from quansino.operations.cell import IsotropicDeformation
    from quansino.operations.displacement import Ball

    N, T = c["N"], c["T"]
    kT = kB * T
    P = (N + 1) * kT / c["meanV"]
    L = c["V0"] ** (1 / 3)
    rng = np.random.default_rng(c["seed"])
    cell0 = np.eye(3) * L
    if c.get("lh"):
        cell0 = cell0[[1, 0, 2]]
        out["labels"].append("left-handed-cell")
    atoms = Atoms("Ar" * N, positions=rng.uniform(0, L, (N, 3)), cell=cell0, pbc=True)
    atoms.calc = FastCalc("ideal")
    with warnings.catch_warnings():
        warnings.simplefilter("ignore")
        mc = Isobaric(atoms, temperature=c.get("T0") or T, pressure=(P * 1.7 if c.get("T0") else P), max_cycles=1, seed=c["seed"])
        mc.add_move(CellMove(IsotropicDeformation(c["size"])), name="c")
        if c["scenario"].endswith("+disp"):
            mc.add_move(DisplacementMove(np.arange(N), Ball(1.0)), name="d")
        V = np.empty(c["steps"])
        acc = tot = 0
        prestage(mc, c, out, temperature=T, pressure=P)
        for i, _ in enumerate(mc.srun(c["steps"])):
            V[i] = atoms.get_volume()
            if mc.move_history[-1][0] == "c":
                tot += 1
                acc += 1 if mc.move_history[-1][1] else 0
    desc = f"{c['scenario']} N={N} T={T:.4g} P={P:.4g} max strain={c['size']:.3g} seed={c['seed']}"
    burn = c["steps"] // 10
    v = V[burn:] * P / kT  # should be Gamma(N+1, 1)
    mean, se, z, ess = batch_z(v, N + 1.0)
    out["acc"], out["ess"] = acc / max(tot, 1), ess
    if ess < 50:
        return
    if verdict(out, "isobaric-mean-volume", "<V>P/kT", mean, se, z, N + 1.0, floor_rel=0.02, desc=desc):
        return
    thin = int(max(1, 3 * tau_int(v[: 50000])))
    p = stats.kstest(v[::thin], "gamma", args=(N + 1.0,)).pvalue
    out["summary"]["gamma_ks_p"] = float(p)
    if p < 1e-7:
        out["violation"] = {"kind": "isobaric-volume-law", "detail": f"{desc}: V P/kT does not follow Gamma(N+1): KS p={p:.2e} on {len(v[::thin])} thinned samples (mean {v.mean():.4g})"}


def run_gc(c, out):
    from quansino.mc.gcmc import GrandCanonical
    from quansino.moves.displacement import DisplacementMove
    from quansino.moves.exchange import ExchangeMove
    from quansino.operations.displacement import Ball, TranslationRotation

    _, species, geom = c["scenario"].split(":")
    T, L = c["T"], c["L"]
    kT = kB * T
    cell = np.eye(3) * L
    if geom.startswith("tri"):
        cell[1, 0], cell[2, 0], cell[2, 1] = c["shear"][0] * L, c["shear"][1] * L, c["shear"][2] * L
    if c.get("lh"):
        cell = cell[[1, 0, 2]]
        out["labels"].append("left-handed-cell")
    V = abs(np.linalg.det(cell))
    if species == "atomic":
        tpl = Atoms("Ar", positions=[[0, 0, 0]])
    else:
        tpl = Atoms("OH", positions=[[0, 0, 0], [0, 0, c["bond"]]])
    k = len(tpl)
    mass = float(tpl.get_masses().sum())
    lam = c["target"]
    mu = kT * math.log(lam * lambda3(mass, T) / V)
    rng = np.random.default_rng(c["seed"])
    n0 = c["n0"]
    atoms = Atoms(cell=cell, pbc=True)
    for _ in range(n0):
        t = tpl.copy()
        t.translate(rng.uniform(0, 1, 3) @ cell)
        atoms += t
    atoms.calc = FastCalc("ideal")
    labels = np.repeat(np.arange(n0), k)
    with warnings.catch_warnings():
        warnings.simplefilter("ignore")
        T0 = c.get("T0") or T
        mu0 = kB * T0 * math.log(lam * lambda3(mass, T0) / V)
        mc = GrandCanonical(atoms, exchange_atoms=tpl, temperature=T0, chemical_potential=mu0, number_of_exchange_particles=n0, max_cycles=1, seed=c["seed"])
        mc.add_move(ExchangeMove(labels.copy(), TranslationRotation() if k > 1 else None), name="x")
        if geom.endswith("+disp"):
            mc.add_move(DisplacementMove(labels.copy(), Ball(1.0)), name="d", probability=0.5)
        steps = c["steps"]
        acc_x = tot_x = 0
        prestage(mc, c, out, temperature=T, chemical_potential=mu)
        Ns = np.empty(steps)
        fr, cos, az = [], [], []
        inv = np.linalg.inv(cell)
        sample_every = 50
        for i, _ in enumerate(mc.srun(steps)):
            n_at = len(atoms)
            if mc.move_history[-1][0] == "x" and mc.move_history[-1][1] is not None:
                tot_x += 1
                acc_x += 1 if mc.move_history[-1][1] else 0
            Ns[i] = n_at / k
            if mc.number_of_exchange_particles != n_at // k or n_at % k:
                out["violation"] = {"kind": "gc-counter", "detail": f"{c['scenario']}: number_of_exchange_particles={mc.number_of_exchange_particles} but {n_at} atoms of a {k}-atom species"}
                return
            if i % sample_every == 0 and i > steps // 10 and n_at:
                pos = atoms.positions.reshape(-1, k, 3)
                first = pos[:, 0, :] if k > 1 else pos[:, 0, :]
                ref = pos.mean(axis=1)  # centroid placed uniformly by Translation
                f = (ref @ inv) % 1.0
                fr.append(f)
                if k > 1:
                    b = pos[:, 1, :] - pos[:, 0, :]
                    bl = np.linalg.norm(b, axis=1)
                    if np.abs(bl - c["bond"]).max() > 1e-8:
                        out["violation"] = {"kind": "gc-molecule-not-rigid", "detail": f"{c['scenario']}: bond length {bl.tolist()} != {c['bond']}"}
                        return
                    cos.append(b[:, 2] / bl)
                    az.append(np.arctan2(b[:, 1], b[:, 0]))
    desc = f"{c['scenario']} <N>={lam:.3g} T={T:.4g} L={L:.3g} seed={c['seed']}"
    burn = steps // 10
    x = Ns[burn:]
    mean, se, z, ess = batch_z(x, lam)
    out["ess"] = ess
    out["acc"] = acc_x / max(tot_x, 1)
    if ess < 50:
        return
    if verdict(out, "gc-mean-number:" + species, "<N>", mean, se, z, lam, floor_rel=0.02, desc=desc):
        return
    v = (x - x.mean()) ** 2
    m2, se2, z2, _ = batch_z(v, lam)
    if verdict(out, "gc-number-variance:" + species, "Var(N)", m2, se2, z2, lam, floor_rel=0.08, desc=desc):
        return
    thin = int(max(1, 3 * tau_int(x[:50000])))
    xs = x[::thin].astype(int)
    kmax = int(max(xs.max(), lam + 6 * math.sqrt(lam))) + 1
    obs = np.bincount(xs, minlength=kmax + 1).astype(float)
    exp = stats.poisson.pmf(np.arange(kmax + 1), lam) * len(xs)
    # merge the tail so that expected counts are >= 5
    keep = exp >= 5
    o = np.append(obs[keep], obs[~keep].sum())
    e_ = np.append(exp[keep], len(xs) - exp[keep].sum())
    if e_[-1] < 1e-9:
        o, e_ = o[:-1], e_[:-1]
    e_ *= o.sum() / e_.sum()
    chi, p = stats.chisquare(o, e_)
    out["summary"]["poisson_p"] = float(p)
    if p < 1e-7:
        out["violation"] = {"kind": "gc-number-law:" + species, "detail": f"{desc}: thinned N histogram rejects Poisson({lam:.3g}): chi2={chi:.1f}, p={p:.2e}, n={len(xs)}"}
        return
    if fr:
        f = np.vstack(fr)
        f = f[:: max(1, len(f) // 20000)]
        for ax in range(3):
            p = stats.kstest(f[:, ax], "uniform").pvalue
            if p < 1e-7:
                out["violation"] = {"kind": "gc-positions-not-uniform:" + species, "detail": f"{desc}: fractional coordinate {ax} of the particles' reference point is not uniform (KS p={p:.2e}, n={len(f)})"}
                return
    if cos:
        cz = np.concatenate(cos)
        a = np.concatenate(az)
        cz, a = cz[:: max(1, len(cz) // 20000)], a[:: max(1, len(a) // 20000)]
        p1 = stats.kstest(cz, "uniform", args=(-1, 2)).pvalue
        p2 = stats.kstest(a, "uniform", args=(-math.pi, 2 * math.pi)).pvalue
        out["summary"]["orient_p"] = [float(p1), float(p2)]
        if min(p1, p2) < 1e-7:
            out["violation"] = {"kind": "gc-orientation-not-uniform", "detail": f"{desc}: molecular orientations are not uniform on the sphere (KS cos theta p={p1:.2e}, azimuth p={p2:.2e}, n={len(cz)}, <cos>={cz.mean():.3f})"}
            return


def run_case(c):
    kind = c["scenario"].split(":")[0]
    out = {"labels": ["scenario:" + c["scenario"]], "nontrivial": False, "violation": None, "weight": c["steps"]}
    try:
        {"harm": run_harm, "dipole": run_dipole, "npt": run_npt, "gc": run_gc}[kind](c, out)
    except Exception as exc:
        out["nontrivial"] = True
        out["violation"] = {"kind": f"raises:{kind}:{type(exc).__name__}", "detail": f"{c['scenario']}: {exc!r}"[:400]}
        return out
    ess, acc = out.get("ess", 0), out.get("acc", 0.5)
    if ess < 50 and out["violation"] is None:
        out["inconclusive"] = True
        out["labels"].append("inconclusive")
    out["nontrivial"] = bool(out["violation"]) or (ess >= 500 and 0.05 < acc < (0.995 if "HMC" in c["scenario"] else 0.95))
    rounded = {k: (round(v, 2) if isinstance(v, float) else v) for k, v in c.items() if k in ("N", "T", "k", "size", "x", "target", "L", "meanV", "seed")}
    out["key"] = f"{c['scenario']}|{rounded}"
    out.setdefault("summary", {})["ess"] = float(ess)
    out["summary"]["acceptance"] = float(acc)
    return out


def plan(tier):
    steps = 120000 if tier == "quick" else 400000
    n = 1 if tier == "quick" else 10
    return [{"part": s, "shards": 1, "budget": {"n_examples": n, "steps": steps}} for s in SCENARIOS]


def run_part(part, seed, shard, nshards, budget):
    steps = budget["steps"]
    if part in ("harm:HMC+Ball", "harm:HMC2"):
        steps = max(steps // 3, 20000)  # short trajectories (HMC2) / half of the trials are cheap ball moves
    elif part.startswith("harm:HMC"):
        steps = max(steps // 6, 10000)
    return hyp.search(case_st(part, steps), run_case, budget["n_examples"], seed, part, shrink=False, max_samples=2, skip_zero=True)


def replay(part, case):
    return run_case(case)
