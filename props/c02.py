"""C02 - acceptance decisions equal the textbook Metropolis rule.

Parts
  decision   : one call of <Criteria>.evaluate(context) on a real context whose generator is a stub
               returning a chosen uniform u; verdict compared with an independent log-space oracle.
  tension    : IsotensionCriteria only - ln A located by bisection on u; (i) hydrostatic stress gives
               the isobaric ln A on any cell, (ii) ln A is affine in the stress, (iii) on cubic
               reference cells and small symmetric strains the stress work is V0*tr((S-P1)*strain).
  driver     : trials through MonteCarlo.irun(1) with parameters changed through the public setters
               between trials; a spy criteria records the generator state, the oracle recomputes the
               verdict from the harness' own parameter model and fresh energies.
"""
from __future__ import annotations

import copy
import math
import warnings

import numpy as np
import scipy.constants as sc
from ase import Atoms
from hypothesis import strategies as st

from vlib import hyp
from vlib.gen import fl, log10_floats
from vlib.calcs import ConstCalc, ModelCalc, model_energy_forces

ID = "C02"
LEVEL = "exploration"
TECHNIQUE = "property-based testing (Hypothesis): generated numeric inputs and parameter/trial sequences against an independent log-space Metropolis oracle"
RULE = (
    "decision: Hypothesis draws (criteria kind, T, energies with |dE|/kT from ~0 to 1e8, cells, N, P, stress, mu, "
    "species masses, uniform u placed near A or anywhere in [0,1)); a case is non-trivial when 0<A<1 with u within a "
    "factor 2 of A, or |exponent|>709 (overflow region); distinct = distinct (kind, rounded ln A, rounded ln u). "
    "tension: bisection-measured ln A of IsotensionCriteria; non-trivial = every executed case (stress != P*1 or sheared cell). "
    "driver: setter/trial sequences through irun(1); non-trivial = a trial reached its criteria with -5<ln A<0 "
    "after at least one setter call; distinct by (driver, setter names, rounded ln A)."
)
ASSUMPTIONS = [
    "kT uses ase.units.kB (the ASE unit system is the convention); the de Broglie wavelength is computed independently from scipy CODATA constants",
    "verdicts with |ln u - ln A| inside a guard band (1e-9, or 2e-6 for grand-canonical because CODATA versions differ at 3e-7, plus 1e-11 x the largest term entering ln A) are not compared; '<' vs '<=' not decided",
    "isotension: only hydrostatic equivalence, affinity in S and the first-order work on cubic reference cells are asserted (strain convention beyond first order not fixed by the statement)",
    "multi-particle exchange (|delta|>1) is outside the statement and not compared",
]

from ase.units import kB as KB  # eV/K: the unit system of the ASE ecosystem is the convention, not under test

AMU = sc.physical_constants["atomic mass constant"][0]


def log_lambda3(mass_amu, T):
    lam_m = sc.h / math.sqrt(2.0 * math.pi * mass_amu * AMU * sc.k * T)
    return 3.0 * (math.log(lam_m) + math.log(1e10))


class StubRng:
    def __init__(self, u):
        self.u = u
        self.calls = 0

    def random(self, *a, **k):
        self.calls += 1
        return self.u


# ------------------------------------------------------------------ strategies

ratio_st = st.one_of(
    fl(-6, 0.5),
    fl(-3, 3),
    fl(-40, 40),
    fl(-40, 40),
    st.sampled_from([0.0, 1e-12, -1e-12, 700.0, -700.0, 709.7, -709.7, 709.9, -709.9, 710.5, -710.5, 745.0, -745.2, 800.0, -800.0]),
    fl(700, 720).flatmap(lambda x: st.sampled_from([x, -x])),
    st.sampled_from([1e4, -1e4, 1e6, -1e6, 1e8, -1e8]),
)

u_st = st.one_of(
    st.tuples(st.just("abs"), st.one_of(st.floats(0, 1, exclude_max=True), st.sampled_from([0.0, 1 - 2.0 ** -53, 0.5, 2.0 ** -53, 1e-300]))),
    st.tuples(st.just("rel"), st.tuples(st.sampled_from([-1, 1]), st.sampled_from([1e-5, 1e-4, 1e-3, 1e-2, 0.1, 0.3, 0.5]))),
    st.tuples(st.just("rel"), st.tuples(st.sampled_from([-1, 1]), st.floats(1e-5, 0.5))),
    st.tuples(st.just("rel"), st.tuples(st.sampled_from([-1, 1]), st.floats(1e-5, 0.5))),
)


@st.composite
def cell_st(draw, allow_shear=True):
    a = draw(fl(3.0, 12.0))
    b = draw(fl(3.0, 12.0))
    c = draw(fl(3.0, 12.0))
    kind = draw(st.sampled_from(["ortho", "tri", "sheared"])) if allow_shear else "ortho"
    m = np.diag([a, b, c]).astype(float)
    if kind != "ortho":
        lim = 0.45 if kind == "tri" else 0.9
        m[1, 0] = draw(fl(-lim, lim)) * a
        m[2, 0] = draw(fl(-lim, lim)) * a
        m[2, 1] = draw(fl(-lim, lim)) * b
    return {"kind": kind, "m": m.tolist()}


@st.composite
def decision_case(draw):
    kind = draw(st.sampled_from(["canonical", "hamiltonian", "isobaric", "isotension_hydro", "gc_insert", "gc_delete"]))
    T = draw(st.one_of(log10_floats(-3, 5), st.sampled_from([1e-3, 1.0, 298.15, 1e5])))
    case = {"kind": kind, "T": T, "E_old": draw(fl(-1e3, 1e3)), "x": draw(ratio_st), "u": draw(u_st)}
    if kind == "hamiltonian":
        case["ke_old"] = draw(fl(0, 50))
        case["ke_new"] = draw(fl(0, 50))
        case["mass"] = draw(fl(1, 200))
    if kind in ("isobaric", "isotension_hydro"):
        case["cell_old"] = draw(cell_st())
        case["cell_new"] = draw(cell_st())
        if draw(st.integers(0, 3)) == 0:  # a deformation keeps the handedness of the lattice
            case["cell_old"]["lh"] = case["cell_new"]["lh"] = True
        case["N"] = draw(st.integers(0, 50))
        case["P"] = draw(st.one_of(st.just(0.0), fl(-0.5, 0.5), log10_floats(-6, 0)))
    if kind.startswith("gc"):
        case["N"] = draw(st.one_of(st.integers(1 if kind == "gc_delete" else 0, 60), st.sampled_from([169, 170, 171, 172, 300, 5000])))
        case["V"] = draw(log10_floats(0, 5))
        case["mu"] = draw(st.one_of(fl(-5, 5), st.sampled_from([0.0, -100.0, 100.0])))
        case["masses"] = draw(st.lists(fl(1, 250), min_size=1, max_size=3))
    return case


# ------------------------------------------------------------------ oracle + execution
def _cell(c):
    m = np.array(c["m"], dtype=float)
    if c.get("lh"):
        m = m[[1, 0, 2]]  # left-handed lattice (negative determinant, positive volume): valid in ASE
    return m


def build_decision(case, u):
    """Build (criteria, context, oracle ln A) for one decision case; the context's generator returns u.

    case["x"] is the *target* ln A: the energy change is chosen so that the non-energy terms of the
    ensemble (volume work, entropy of volume, ideal-gas prefactors, kinetic energy) plus -dE/kT give
    about x; the oracle then recomputes ln A from the float energies the criteria actually sees.
    """
    from quansino.mc import contexts as C
    from quansino.mc import criteria as K

    kind = case["kind"]
    T = case["T"]
    kT = KB * T
    E_old = float(case["E_old"])
    stub = StubRng(u)
    if kind == "canonical":
        atoms = Atoms("H2", positions=[[0, 0, 0], [0, 0, 1.0]])
        ctx = C.DisplacementContext(atoms, stub)
        crit = K.CanonicalCriteria()
        base = 0.0
    elif kind == "hamiltonian":
        atoms = Atoms("H", positions=[[0, 0, 0]])
        atoms.set_masses([case["mass"]])
        p = math.sqrt(2.0 * case["mass"] * case["ke_new"])
        atoms.set_momenta([[p, 0, 0]])
        ctx = C.HamiltonianDisplacementContext(atoms, stub)
        ctx.last_kinetic_energy = float(case["ke_old"])
        crit = K.HamiltonianCanonicalCriteria()
        ke_new = float(atoms.get_kinetic_energy())
        base = -(ke_new - float(case["ke_old"])) / kT
    elif kind in ("isobaric", "isotension_hydro"):
        n = case["N"]
        h0, h = _cell(case["cell_old"]), _cell(case["cell_new"])
        atoms = Atoms("H" * n, positions=np.zeros((n, 3)), cell=h0, pbc=True)
        ctx = C.DeformationContext(atoms, stub)
        ctx.last_cell = atoms.get_cell()
        atoms.set_cell(h, scale_atoms=False)
        ctx.pressure = float(case["P"])
        V0, V = abs(np.linalg.det(h0)), abs(np.linalg.det(h))
        base = -(case["P"] * (V - V0)) / kT + (n + 1) * math.log(V / V0)
        if kind == "isobaric":
            crit = K.IsobaricCriteria()
        else:
            crit = K.IsotensionCriteria()
            ctx.external_stress = float(case["P"]) * np.eye(3)
    else:
        species = Atoms("H" * len(case["masses"]), positions=np.zeros((len(case["masses"]), 3)))
        species.set_masses(case["masses"])
        atoms = Atoms("H", positions=[[0, 0, 0]], cell=[10, 10, 10], pbc=True)
        ctx = C.ExchangeContext(atoms, stub)
        ctx.exchange_atoms = species
        ctx.number_of_exchange_particles = case["N"]
        ctx.accessible_volume = float(case["V"])
        ctx.chemical_potential = float(case["mu"])
        crit = K.GrandCanonicalCriteria()
        l3 = log_lambda3(float(np.sum(np.asarray(case["masses"], dtype=float))), T)
        if kind == "gc_insert":
            ctx.particle_delta = 1
            base = math.log(case["V"]) - l3 - math.log(case["N"] + 1) + case["mu"] / kT
        else:
            ctx.particle_delta = -1
            base = l3 + math.log(case["N"]) - math.log(case["V"]) - case["mu"] / kT
    E_new = float(E_old + (base - case["x"]) * kT)
    dE = E_new - E_old
    atoms.calc = ConstCalc(E_new)
    # oracle: recomputed from the float inputs (not from the target x)
    if kind == "canonical":
        logA = -dE / kT
    elif kind == "hamiltonian":
        logA = -((E_new + ke_new) - E_old - float(case["ke_old"])) / kT
    elif kind in ("isobaric", "isotension_hydro"):
        logA = -(dE + case["P"] * (V - V0)) / kT + (n + 1) * math.log(V / V0)
    elif kind == "gc_insert":
        logA = math.log(case["V"]) - l3 - math.log(case["N"] + 1) + (case["mu"] - dE) / kT
    else:
        logA = l3 + math.log(case["N"]) - math.log(case["V"]) + (-case["mu"] - dE) / kT
    ctx.temperature = T
    ctx.last_potential_energy = E_old
    # magnitude of the largest term entering ln A (float cancellation scale)
    stub.scale = max(1.0, abs(dE) / kT, abs(base))
    stub.band = (2e-6 if kind.startswith("gc") else 1e-9) + 1e-11 * stub.scale
    return crit, ctx, float(logA), stub


def choose_u(mode, logA):
    tag, val = mode
    if tag == "abs":
        return float(val)
    sign, eps = val
    if logA >= 0 or logA < -700:
        # A >= 1 (every u must be accepted) or A below the float range: use a spread of u values
        return min(max(eps, 0.0), 1 - 2.0 ** -53)
    u = math.exp(logA) * (1.0 + sign * eps)
    return min(max(u, 0.0), 1 - 2.0 ** -53)


def run_decision(case):
    _, _, logA0, _ = build_decision(case, 0.5)
    u = choose_u(case["u"], logA0)
    crit, ctx, logA, stub = build_decision(case, u)
    labels = [case["kind"]] + (["left-handed-cell"] if (case.get("cell_old") or {}).get("lh") else [])
    x = case["x"]
    logu = math.log(u) if u > 0 else -math.inf
    band = stub.band
    if u == 0.0 and logA < -700:
        return {"labels": labels + ["boundary"], "nontrivial": False, "violation": None}
    if abs(logu - logA) <= band:
        return {"labels": labels + ["boundary"], "nontrivial": False, "violation": None}
    expected = logu < min(0.0, logA)
    try:
        with warnings.catch_warnings():
            warnings.simplefilter("ignore")
            got = crit.evaluate(ctx)
    except Exception as exc:  # favourable or not, finite inputs must never raise
        return {
            "labels": labels + ["raised"],
            "nontrivial": True,
            "key": f"{case['kind']}|raise",
            "violation": {"kind": f"raises:{case['kind']}:{type(exc).__name__}", "detail": f"{type(exc).__name__}: {exc}; ln A={logA:.6g} u={u!r}"},
        }
    overflow = abs(x) > 709 or abs(logA) > 709
    close = (0 > logA > -700) and u > 0 and abs(logu - logA) < math.log(2.0)
    if overflow:
        labels.append("overflow-region")
    if close:
        labels.append("u-near-A")
    if logA >= 0:
        labels.append("A>=1")
    labels.append("accept" if expected else "reject")
    out = {
        "labels": labels,
        "nontrivial": bool(overflow or close),
        "key": f"{case['kind']}|{round(logA, 3)}|{round(logu, 3) if u > 0 else 'u0'}",
        "violation": None,
    }
    if bool(got) != expected:
        out["nontrivial"] = True
        out["violation"] = {
            "kind": f"verdict:{case['kind']}",
            "detail": f"evaluate returned {got!r}, oracle ln A={logA!r}, u={u!r} (ln u={logu!r}) => expected {expected}",
        }
    return out


# ------------------------------------------------------------------ tension part
@st.composite
def tension_case(draw):
    mode = draw(st.sampled_from(["hydro", "affine", "work"]))
    T = draw(log10_floats(1, 3.5))
    case = {"mode": mode, "T": T, "N": draw(st.integers(0, 20)), "P": draw(st.one_of(st.just(0.0), fl(-0.05, 0.05)))}
    sym = draw(st.booleans())
    case["sym"] = sym

    def mat(scale):
        v = draw(st.lists(fl(-1, 1), min_size=9, max_size=9))
        m = np.array(v, dtype=float).reshape(3, 3) * scale
        if sym:
            m = 0.5 * (m + m.T)
        return m.tolist()

    if mode == "work":
        case["L"] = draw(fl(4, 12))
        case["eta"] = draw(log10_floats(-5, -3))
        e = np.array(draw(st.lists(fl(-1, 1), min_size=6, max_size=6)), dtype=float)
        E = np.array([[e[0], e[3], e[4]], [e[3], e[1], e[5]], [e[4], e[5], e[2]]])
        case["E"] = E.tolist()
        case["D"] = mat(1.0)
        case["sym"] = True  # stress work against a symmetric strain only sees the symmetric part
    else:
        case["cell_old"] = draw(cell_st())
        case["cell_new"] = draw(cell_st())
        if draw(st.integers(0, 3)) == 0:  # a deformation keeps the handedness of the lattice
            case["cell_old"]["lh"] = case["cell_new"]["lh"] = True
        case["D1"] = mat(1.0)
        case["D2"] = mat(1.0)
        case["a"] = draw(fl(-1, 1))
        case["b"] = draw(fl(-1, 1))
    return case


def measure_logA(crit, ctx, stub, iters=80):
    """Bisection on the uniform: returns ln A in (-745, 0), or None when A>=1 or A underflows."""
    def acc(u):
        stub.u = u
        with warnings.catch_warnings():
            warnings.simplefilter("ignore")
            return bool(crit.evaluate(ctx))

    if acc(1 - 2.0 ** -53):
        return None
    lo, hi = -745.0, 0.0  # in ln u
    if not acc(math.exp(lo)):
        return None
    for _ in range(iters):
        mid = 0.5 * (lo + hi)
        if acc(math.exp(mid)):
            lo = mid
        else:
            hi = mid
    return 0.5 * (lo + hi)


def _tension_ctx(h0, h, n, T, P, S, e_shift_kT):
    from quansino.mc import contexts as C

    stub = StubRng(0.5)
    atoms = Atoms("H" * n, positions=np.zeros((n, 3)), cell=h0, pbc=True)
    kT = KB * T
    V0, V = abs(np.linalg.det(h0)), abs(np.linalg.det(h))
    # choose the energy change so that the isobaric ln A is about -e_shift_kT (A < 1, measurable)
    base = -(P * (V - V0)) / kT + (n + 1) * math.log(V / V0)
    dE = (base + e_shift_kT) * kT
    atoms.calc = ConstCalc(dE)
    ctx = C.DeformationContext(atoms, stub)
    ctx.last_cell = atoms.get_cell()
    atoms.set_cell(h, scale_atoms=False)
    ctx.temperature = T
    ctx.pressure = P
    ctx.external_stress = S
    ctx.last_potential_energy = 0.0
    return ctx, stub, kT, V0


def run_tension(case):
    from quansino.mc import criteria as K

    mode, T, n, P = case["mode"], case["T"], case["N"], float(case["P"])
    crit = K.IsotensionCriteria()
    iso = K.IsobaricCriteria()
    labels = ["tension:" + mode] + (["left-handed-cell"] if (case.get("cell_old") or {}).get("lh") else [])
    out = {"labels": labels, "nontrivial": True, "violation": None}
    try:
        if mode == "work":
            L, eta = case["L"], case["eta"]
            h0 = np.eye(3) * L
            E = np.array(case["E"], dtype=float)
            h = (np.eye(3) + eta * E) @ h0
            D = np.array(case["D"], dtype=float)
            D = 0.5 * (D + D.T)
            kT = KB * T
            V0 = L ** 3
            norm = np.linalg.norm(D) * np.linalg.norm(E)
            if norm < 1e-3:
                return {"labels": labels + ["degenerate"], "nontrivial": False, "violation": None}
            # scale the stress so that the work is ~0.3 kT
            scale = 0.3 * kT / (V0 * eta * norm)
            D = D * scale
            S = P * np.eye(3) + D
            if case.get("N", 0) % 2 == 0:
                # the same criteria object has just judged a trial from ANOTHER reference cell of the same volume
                # (what an accepted volume-preserving shear leaves behind): each trial is judged on its own cells
                shear = np.eye(3)
                shear[0, 1], shear[1, 2] = 0.23, -0.11
                ctx_w, stub_w, _, _ = _tension_ctx(h0 @ shear, h, n, T, P, S, 3.0)
                stub_w.u = 0.5
                crit.evaluate(ctx_w)
                labels.append("criteria-used-before-on-an-equal-volume-cell")
            ctx, stub, kT, V0 = _tension_ctx(h0, h, n, T, P, S, 3.0)
            lnA = measure_logA(crit, ctx, stub)
            ctx.external_stress = P * np.eye(3)
            lnA0 = measure_logA(crit, ctx, stub)
            if lnA is None or lnA0 is None:
                return {"labels": labels + ["unmeasurable"], "nontrivial": False, "violation": None}
            work = -(lnA - lnA0) * kT / V0
            expect = float(np.trace(D @ (eta * E)))
            tol = (5 * eta + 1e-6) * (np.linalg.norm(D) * eta * np.linalg.norm(E)) + 1e-11 * kT / V0
            out["key"] = f"work|{round(math.log10(eta), 1)}|{round(L, 1)}|{n}"
            if abs(work - expect) > tol:
                out["violation"] = {"kind": "tension:work", "detail": f"measured stress work/V0={work!r}, first-order V0*tr((S-P1)*strain)/V0={expect!r}, ratio={work / expect if expect else float('nan'):.4f}, tol={tol:.3g}"}
            return out
        h0, h = _cell(case["cell_old"]), _cell(case["cell_new"])
        kT = KB * T
        V0 = abs(np.linalg.det(h0))
        if mode == "hydro":
            S = P * np.eye(3)
            ctx, stub, kT, V0 = _tension_ctx(h0, h, n, T, P, S, 3.0)
            lnA = measure_logA(crit, ctx, stub)
            lnI = measure_logA(iso, ctx, stub)
            if lnA is None or lnI is None:
                # still compare verdicts on a grid of u
                labels.append("unmeasurable")
                return {"labels": labels, "nontrivial": False, "violation": None}
            labels.append(case["cell_old"]["kind"] + ">" + case["cell_new"]["kind"])
            out["key"] = f"hydro|{case['cell_old']['kind']}|{case['cell_new']['kind']}|{round(P, 3)}|{n}"
            if abs(lnA - lnI) > 1e-9 * max(1.0, abs(lnI)):
                out["violation"] = {"kind": "tension:hydrostatic", "detail": f"hydrostatic stress S=P*1: ln A(isotension)={lnA!r} != ln A(isobaric)={lnI!r} (P={P}, cells {case['cell_old']['kind']}->{case['cell_new']['kind']})"}
            return out
        # affine
        D1 = np.array(case["D1"], dtype=float)
        D2 = np.array(case["D2"], dtype=float)
        # keep every |work| below ~1 kT
        sc_ = 0.5 * kT / (V0 * 3.0)
        D1, D2 = D1 * sc_, D2 * sc_
        a, b = case["a"], case["b"]

        def g(Dm):
            ctx, stub, _, _ = _tension_ctx(h0, h, n, T, P, P * np.eye(3) + Dm, 6.0)
            return measure_logA(crit, ctx, stub)

        g0, g1, g2, g12 = g(np.zeros((3, 3))), g(D1), g(D2), g(a * D1 + b * D2)
        if None in (g0, g1, g2, g12):
            return {"labels": labels + ["unmeasurable"], "nontrivial": False, "violation": None}
        lhs = g12 - g0
        rhs = a * (g1 - g0) + b * (g2 - g0)
        out["key"] = f"affine|{case['cell_old']['kind']}|{case['cell_new']['kind']}|{round(a, 2)}|{round(b, 2)}"
        if abs(lhs - rhs) > 1e-9 + 1e-7 * (abs(g1 - g0) + abs(g2 - g0)):
            out["violation"] = {"kind": "tension:affine", "detail": f"ln A not affine in S: g(aD1+bD2)-g0={lhs!r} vs a(g1-g0)+b(g2-g0)={rhs!r}"}
        return out
    except Exception as exc:
        return {"labels": labels + ["raised"], "nontrivial": True, "violation": {"kind": f"tension:raises:{type(exc).__name__}", "detail": repr(exc)}}


# ------------------------------------------------------------------ driver part
PAIR = {"k": 0.05, "center": (2.5, 2.5, 2.5), "a": 0.4, "s": 1.6, "b": 0.002, "z": 0.01}


@st.composite
def driver_case(draw):
    driver = draw(st.sampled_from(["Canonical", "Isobaric", "Isotension", "GrandCanonical", "HamiltonianCanonical"]))
    n = draw(st.integers(2, 5))
    pos = draw(st.lists(st.lists(fl(0.5, 4.5), min_size=3, max_size=3), min_size=n, max_size=n))
    case = {"driver": driver, "seed": draw(st.integers(1, 2 ** 32)), "pos": pos, "T0": draw(log10_floats(1.5, 4)),
            # constraints remove degrees of freedom, not particles: N in the rule stays the number of atoms
            "constraint": draw(st.sampled_from([None, None, "FixAtoms", "FixCom"])) if driver != "GrandCanonical" else None}
    setters = ["temperature"]
    if driver in ("Isobaric", "Isotension"):
        setters.append("pressure")
    if driver == "Isotension":
        setters.append("external_stress")
    if driver == "GrandCanonical":
        setters += ["chemical_potential", "accessible_volume", "number_of_exchange_particles"]
        case["species_masses"] = draw(st.lists(fl(1, 100), min_size=1, max_size=2))
    ops = []
    for _ in range(draw(st.integers(3, 10))):
        if draw(st.integers(0, 2)) == 0:
            name = draw(st.sampled_from(setters))
            if name == "temperature":
                val = draw(log10_floats(1.5, 4))
            elif name == "pressure":
                val = draw(fl(-0.02, 0.05))
            elif name == "external_stress":
                d = draw(fl(-0.02, 0.05))
                val = (np.eye(3) * d).tolist()  # hydrostatic part only: fully determined by the statement
            elif name == "chemical_potential":
                val = draw(fl(-1.0, 1.0))
            elif name == "accessible_volume":
                val = draw(log10_floats(1, 4))
            else:
                val = draw(st.integers(0, 6))
            ops.append(["set", name, val])
        else:
            # third field: the user's geometric check refuses every attempt of this trial (it then never reaches the
            # criteria and must leave nothing behind for the next one)
            ops.append(["trial", draw(st.integers(0, 1)), draw(st.integers(0, 4)) == 0])
    if not any(o[0] == "trial" for o in ops):
        ops.append(["trial", 0])
    case["ops"] = ops
    return case


def run_driver(case):
    from quansino.mc import canonical, gcmc, isobaric, isotension
    from quansino.mc import criteria as K
    from quansino.moves.cell import CellMove
    from quansino.moves.displacement import DisplacementMove, HamiltonianDisplacementMove
    from quansino.moves.exchange import ExchangeMove
    from quansino.integrators.displacement import Verlet
    from quansino.operations.cell import AnisotropicDeformation
    from quansino.operations.displacement import Ball

    driver = case["driver"]
    n = len(case["pos"])
    atoms = Atoms("Ar" * n, positions=case["pos"], cell=[5.0, 5.0, 5.0], pbc=True)
    atoms.calc = ModelCalc("pair", PAIR, style="caching")
    if case.get("constraint") == "FixAtoms":
        from ase.constraints import FixAtoms

        atoms.set_constraint(FixAtoms(indices=[0]))
    elif case.get("constraint") == "FixCom":
        from ase.constraints import FixCom

        atoms.set_constraint(FixCom())
    log = []
    model = {"temperature": case["T0"], "pressure": 0.01, "external_stress": np.eye(3) * 0.01, "chemical_potential": 0.0,
             "accessible_volume": 125.0, "number_of_exchange_particles": n}

    def spy(base):
        class Spy(base):
            def evaluate(self, context):
                rec = {"state": copy.deepcopy(context.rng.bit_generator.state), "pos": context.atoms.positions.copy(),
                       "cell": context.atoms.cell.array.copy(), "numbers": context.atoms.numbers.copy(),
                       "ke": float(context.atoms.get_kinetic_energy()), "delta": getattr(context, "particle_delta", 0)}
                is_static = isinstance(base.__dict__.get("evaluate"), staticmethod)
                # the rule quantifies over every uniform number: measure ln A of this very trial by bisection on a
                # scripted uniform (the simulation's generator is put back untouched before the real decision)
                outer = self

                class _Plain:
                    def evaluate(self, ctx):
                        return base.evaluate(ctx) if is_static else base.evaluate(outer, ctx)

                real_rng = context.rng
                stub = StubRng(0.5)
                try:
                    context.rng = stub
                    try:
                        rec["measured"] = measure_logA(_Plain(), context, stub, iters=60)
                        rec["measured_ok"] = True
                    finally:
                        context.rng = real_rng
                except AttributeError:
                    rec["measured_ok"] = False
                rec["verdict"] = bool(base.evaluate(context)) if is_static else bool(base.evaluate(self, context))
                log.append(rec)
                return rec["verdict"]
        Spy.__name__ = "Spy" + base.__name__
        return Spy()

    kw = {"seed": case["seed"], "max_cycles": 1}
    ke_box = {}
    with warnings.catch_warnings():
        warnings.simplefilter("ignore")
        if driver == "Canonical":
            mc = canonical.Canonical(atoms, temperature=model["temperature"], **kw)
            moves = [(DisplacementMove(np.arange(n), Ball(0.3)), spy(K.CanonicalCriteria))] * 2
        elif driver == "HamiltonianCanonical":
            mc = canonical.HamiltonianCanonical(atoms, temperature=model["temperature"], **kw)

            def dist(context):
                from quansino.utils.dynamics import maxwell_boltzmann_distribution

                maxwell_boltzmann_distribution(context)
                ke_box["ke"] = float(context.atoms.get_kinetic_energy())

            class StartVerlet(Verlet):
                def integrate(self, context):
                    ke_box["ke_start"] = float(context.atoms.get_kinetic_energy())
                    super().integrate(context)

            hm = HamiltonianDisplacementMove(distribution=dist, operation=StartVerlet(dt=2.0, max_steps=3))
            veto = {"left": 0}

            def check(*_a, **_k):
                if veto["left"] > 0:
                    veto["left"] -= 1
                    return False
                return True

            hm.check_move = check
            ke_box["veto"] = veto
            # second entry: an ordinary single-particle move inside the Hamiltonian driver (canonical rule)
            moves = [(hm, spy(K.HamiltonianCanonicalCriteria)), (DisplacementMove(np.arange(n), Ball(0.3)), spy(K.CanonicalCriteria))]
        elif driver == "Isobaric":
            mc = isobaric.Isobaric(atoms, temperature=model["temperature"], pressure=model["pressure"], **kw)
            moves = [(CellMove(AnisotropicDeformation(0.03)), spy(K.IsobaricCriteria)), (DisplacementMove(np.arange(n), Ball(0.3)), spy(K.CanonicalCriteria))]
        elif driver == "Isotension":
            mc = isotension.Isotension(atoms, temperature=model["temperature"], pressure=model["pressure"], external_stress=model["external_stress"].copy(), **kw)
            moves = [(CellMove(AnisotropicDeformation(0.03)), spy(K.IsotensionCriteria)), (DisplacementMove(np.arange(n), Ball(0.3)), spy(K.CanonicalCriteria))]
        else:
            species = Atoms("Ar" * len(case["species_masses"]), positions=[[0.0, 0.0, 1.1 * i] for i in range(len(case["species_masses"]))])
            species.set_masses(case["species_masses"])
            mc = gcmc.GrandCanonical(atoms, exchange_atoms=species, temperature=model["temperature"], chemical_potential=0.0,
                                     number_of_exchange_particles=n, **kw)
            mc.accessible_volume = model["accessible_volume"]
            moves = [(ExchangeMove(np.arange(n)), spy(K.GrandCanonicalCriteria)), (DisplacementMove(np.arange(n), Ball(0.3)), spy(K.CanonicalCriteria))]
        use_default = case["seed"] % 2 == 0
        for i, (mv, cr) in enumerate(moves):
            if use_default and f"m{i}" not in mc.moves:
                # the criteria the driver itself assigns to this kind of move (what most users run), observed by
                # replacing the stored object with a recording subclass instance of the very same class
                mc.add_move(mv, name=f"m{i}")
                mc.moves[f"m{i}"].criteria = spy(type(mc.moves[f"m{i}"].criteria))
            else:
                mc.add_move(mv, criteria=cr, name=f"m{i}")

    labels = ["driver:" + driver]
    keys = []
    setters_seen = []
    nontrivial = False
    for op in case["ops"]:
        if op[0] == "set":
            name, val = op[1], op[2]
            v = np.array(val, dtype=float) if name == "external_stress" else val
            try:
                setattr(mc, name, v)
            except Exception as exc:
                return {"labels": labels + ["raised"], "nontrivial": True, "violation": {"kind": f"driver:setter-raises:{name}", "detail": repr(exc)}}
            model[name] = v
            setters_seen.append(name)
            continue
        which = op[1]
        refuse = len(op) > 2 and bool(op[2]) and "veto" not in ke_box
        if "veto" in ke_box:
            # every second Hamiltonian trial has its first attempt refused by the user's geometric check
            ke_box["veto"]["left"] = 1 if (len(log) % 2 == 1) else 0
        for i in range(len(moves)):
            mc.moves[f"m{i}"].probability = 1.0 if i == which else 0.0
        before = (atoms.positions.copy(), atoms.cell.array.copy(), atoms.numbers.copy())
        n_log = len(log)
        target = mc.moves[f"m{which}"].move
        if refuse and hasattr(target, "check_move"):
            saved_check = target.check_move
            target.check_move = lambda *_a, **_k: False
            labels.append("trial-refused-by-check")
        else:
            refuse = False
        try:
            with warnings.catch_warnings():
                warnings.simplefilter("ignore")
                for step in mc.irun(1):
                    for _ in step:
                        pass
        except Exception as exc:
            return {"labels": labels + ["raised"], "nontrivial": True,
                    "violation": {"kind": f"driver:raises:{driver}:{type(exc).__name__}", "detail": f"{type(exc).__name__}: {exc}"}}
        if refuse:
            # (a deletion does not consult the geometric check: such a trial is judged like any other)
            target.check_move = saved_check
        if len(log) == n_log:
            labels.append("trial-not-evaluated")
            continue
        rec = log[-1]
        kT = KB * model["temperature"]
        e_old, _ = model_energy_forces("pair", before[0], before[1], before[2], PAIR)
        e_new, _ = model_energy_forces("pair", rec["pos"], rec["cell"], rec["numbers"], PAIR)
        dE = e_new - e_old
        crit_name = type(mc.moves[f"m{which}"].criteria).__name__
        mv_obj = mc.moves[f"m{which}"].move
        rule = ("hamiltonian" if isinstance(mv_obj, HamiltonianDisplacementMove) else "isotension" if isinstance(mv_obj, CellMove) and driver == "Isotension"
                else "isobaric" if isinstance(mv_obj, CellMove) else "gc" if isinstance(mv_obj, ExchangeMove) else "canonical")
        if use_default:
            labels.append("default-criteria")
        if rule == "hamiltonian":
            # total-energy change of the trajectory that produced the trial: its start is the last integrate() call
            logA = -((e_new + rec["ke"]) - e_old - ke_box["ke_start"]) / kT
        elif rule in ("isobaric", "isotension"):
            V0, V = abs(np.linalg.det(before[1])), abs(np.linalg.det(rec["cell"]))
            logA = -(dE + model["pressure"] * (V - V0)) / kT + (len(rec["numbers"]) + 1) * math.log(V / V0)
            if rule == "isotension":
                # external stress is kept hydrostatic in this part => work term must vanish when S == P*1;
                # otherwise only the verdict for S == P*1 is asserted
                S = np.asarray(model["external_stress"], dtype=float)
                if not np.allclose(S, model["pressure"] * np.eye(3), rtol=0, atol=0):
                    labels.append("tension-nonhydro-skipped")
                    continue
        elif rule == "gc":
            N = model["number_of_exchange_particles"]
            l3 = log_lambda3(float(np.sum(case["species_masses"])), model["temperature"])
            Vacc = model["accessible_volume"]
            if rec["delta"] == 1:
                logA = math.log(Vacc) - l3 - math.log(N + 1) + (model["chemical_potential"] - dE) / kT
            elif rec["delta"] == -1:
                logA = (l3 + math.log(N) - math.log(Vacc) + (-model["chemical_potential"] - dE) / kT) if N > 0 else -math.inf
            else:
                labels.append("gc-delta-other")
                continue
        else:
            logA = -dE / kT
        g = np.random.Generator(np.random.PCG64())
        g.bit_generator.state = rec["state"]
        u = g.random()
        logu = math.log(u) if u > 0 else -math.inf
        hist = mc.move_history[-1][1]
        # keep the harness' particle-count model in step with accepted exchanges
        if rule == "gc" and hist:
            model["number_of_exchange_particles"] += rec["delta"]
        band = 2e-6 + 1e-10 * max(1.0, abs(logA), abs(dE) / kT)
        if rec.get("measured_ok"):
            labels.append("lnA-measured")
            m = rec.get("measured")
            bad = None
            if m is None:
                if -740.0 < logA < -band:
                    bad = f"the criteria accepts every uniform number (or none) although the rule gives ln A={logA!r}"
            elif not (abs(m - logA) <= band + 1e-9 * abs(logA)) and not (logA >= 0 and m > -band) and logA > -744.0:
                bad = f"ln A measured by bisection on the uniform number is {m!r}, the rule gives {logA!r}"
            if bad:
                return {"labels": labels, "nontrivial": True, "keys": keys or [f"{driver}|viol"],
                        "violation": {"kind": f"driver:lnA:{crit_name.replace('Spy', '')}",
                                      "detail": f"after setters {setters_seen}: {bad} (model params "
                                                f"{ {k: (v if not isinstance(v, np.ndarray) else v.tolist()) for k, v in model.items()} })"}}
        if abs(logu - logA) <= band:
            labels.append("boundary")
            continue
        expected = logu < min(0.0, logA)
        if -5 < logA < 0 and setters_seen:
            nontrivial = True
            keys.append(f"{driver}|{','.join(sorted(set(setters_seen)))}|{round(logA, 2)}")
        labels.append("trial:" + crit_name.replace("Spy", ""))
        if bool(hist) != expected or rec["verdict"] != expected:
            return {"labels": labels, "nontrivial": True, "keys": keys or [f"{driver}|viol"],
                    "violation": {"kind": f"driver:verdict:{crit_name.replace('Spy', '')}",
                                  "detail": f"after setters {setters_seen}: history verdict {hist!r}, oracle ln A={logA!r} (model params "
                                            f"{ {k: (v if not isinstance(v, np.ndarray) else v.tolist()) for k, v in model.items()} }), u={u!r} => expected {expected}"}}
    return {"labels": labels, "nontrivial": nontrivial, "keys": keys, "violation": None}


# ------------------------------------------------------------------ plumbing
PARTS = {
    "decision": (decision_case, run_decision),
    "tension": (tension_case, run_tension),
    "driver": (driver_case, run_driver),
}


def plan(tier):
    if tier == "quick":
        return [
            {"part": "decision", "shards": 6, "budget": {"n_examples": 4000}},
            {"part": "tension", "shards": 2, "budget": {"n_examples": 300}},
            {"part": "driver", "shards": 8, "budget": {"n_examples": 250}},
        ]
    return [
        {"part": "decision", "shards": 16, "budget": {"n_examples": 50000}},
        {"part": "tension", "shards": 8, "budget": {"n_examples": 2500}},
        {"part": "driver", "shards": 16, "budget": {"n_examples": 1500}},
    ]


def run_part(part, seed, shard, nshards, budget):
    strat, fn = PARTS[part]
    return hyp.search(strat(), fn, budget["n_examples"], seed, part)


def replay(part, case):
    return PARTS[part][1](case)

LEVEL_TEXT = (
    "Bounded generated search: every verdict of the five shipped criteria is compared with an independently computed "
    "log-space Metropolis ratio over a numeric domain built to reach overflow, underflow, u ~ A and sheared cells, and "
    "the same oracle is applied to trials driven through the real drivers after parameter changes via the public setters. "
    "Exploration is the right level: the property is a pointwise statement about a numeric function; absence is not proven."
)
LEVEL_NOTE = "Trusted: ase.units.kB as the unit convention, scipy CODATA constants for the de Broglie wavelength, Hypothesis' generators; isotension strain convention only to first order on cubic cells."
DESIGN_REF = "DESIGN.md section 3, C02"
