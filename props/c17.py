"""C17 - combining moves and operations with + and * is faithful and order-preserving.

Parts
  enum-moves : EXHAUSTIVE enumeration of all expression trees with 2..4 leaves over
               {DisplacementMove, ExchangeMove, CellMove, generic BaseMove subclass}, every
               parenthesisation of +, and at most two `* n` nodes (n in 1..3) on any subtree
               (single leaves with one or two `*` included).
  enum-ops   : the same for operations over {Ball, Box, Translation, Rotation, IsotropicDeformation, probe}
               up to 3 leaves.
  random     : Hypothesis recursive trees up to 10 leaves with any number of `*` nodes, probe-call
               semantics of plain composites, invalid multipliers.
Oracle: a flattening model (ordered leaves with multiplicity, identity preserved) and the type rule.
"""
from __future__ import annotations

import itertools

import numpy as np
from hypothesis import strategies as st

from vlib import hyp
from vlib.runner import empty_result

ID = "C17"
LEVEL = "exploration"
TECHNIQUE = "exhaustive enumeration (itertools) of bounded expression trees plus property-based random trees (Hypothesis) against a flattening model"
RULE = (
    "enum parts: every tree up to the stated bound is built and compared with the model (exhaustive for that sub-domain). random: recursive trees up to 10 leaves. "
    "Non-trivial = tree with >= 3 leaves and a right-nested + or a * applied to a composite; distinct = the tree's structural string."
)
ASSUMPTIONS = [
    "ExchangeMove is its own kind: a composite is the exchange specialisation only when every element is exactly an ExchangeMove, the displacement specialisation only when every element is exactly a DisplacementMove",
    "bool multipliers (True) count as the integer 1",
]
LEVEL_TEXT = (
    "The space of expression trees up to 4 leaves (moves) / 3 leaves (operations) with up to two multiplications is enumerated completely; larger trees are sampled. "
    "The oracle is a two-line flattening model, so any deviation in order, multiplicity, identity or result type is decided exactly."
)
LEVEL_NOTE = "Trusted: Python object identity; the flattening model."
DESIGN_REF = "DESIGN.md section 3, C17"
EXHAUSTIVE_NOTE = "enum-moves: all trees with <= 4 leaves over 4 leaf kinds, all parenthesisations, <= 2 multiplications with n in 1..3; enum-ops: same with <= 3 leaves over 6 kinds"

MOVE_KINDS = ["D", "X", "C", "G"]
OP_KINDS = ["Ball", "Box", "Translation", "Rotation", "Iso", "Probe", "TransRot"]


# ------------------------------------------------------------------ pools
def move_pool():
    from quansino.moves.cell import CellMove
    from quansino.moves.core import BaseMove
    from quansino.moves.displacement import DisplacementMove
    from quansino.moves.exchange import ExchangeMove
    from quansino.operations.displacement import Ball

    class Generic(BaseMove):
        def __init__(self):
            super().__init__(Ball(0.1))

        def __call__(self, context):
            return False

    lab = np.arange(3)
    return {
        "D": [DisplacementMove(lab) for _ in range(10)],
        "X": [ExchangeMove(lab) for _ in range(10)],
        "C": [CellMove() for _ in range(10)],
        "G": [Generic() for _ in range(10)],
    }


def op_pool():
    from quansino.operations import cell as oc
    from quansino.operations import displacement as od
    from quansino.operations.core import BaseOperation

    class Probe(BaseOperation):
        def calculate(self, context):
            return np.zeros((1, 3))

    return {
        "Ball": [od.Ball(0.1) for _ in range(10)], "Box": [od.Box(0.1) for _ in range(10)], "Translation": [od.Translation() for _ in range(10)],
        "Rotation": [od.Rotation() for _ in range(10)], "Iso": [oc.IsotropicDeformation(0.1) for _ in range(10)], "Probe": [Probe() for _ in range(10)],
        "TransRot": [od.TranslationRotation() for _ in range(10)],
    }


# ------------------------------------------------------------------ trees
def shapes(n_leaves):
    """All binary tree shapes over leaf slots 0..n-1 (in order)."""
    def rec(lo, hi):
        if hi - lo == 1:
            yield ("leaf", lo)
            return
        for mid in range(lo + 1, hi):
            for l in rec(lo, mid):
                for r in rec(mid, hi):
                    yield ("add", l, r)
    return list(rec(0, n_leaves))


def subtrees(t, path=()):
    yield path
    if t[0] == "add":
        yield from subtrees(t[1], path + (1,))
        yield from subtrees(t[2], path + (2,))


def with_mul(t, path, n):
    if not path:
        return ("mul", t, n)
    lst = list(t)
    lst[path[0]] = with_mul(t[path[0]], path[1:], n)
    return tuple(lst)


def tree_str(t, kinds):
    if t[0] == "leaf":
        return kinds[t[1]]
    if t[0] == "add":
        return f"({tree_str(t[1], kinds)}+{tree_str(t[2], kinds)})"
    return f"{tree_str(t[1], kinds)}*{t[2]}"


IADD = [False]  # the random part switches the augmented assignment form on


def elements_of(obj):
    return list(getattr(obj, "moves", None) if hasattr(obj, "moves") else getattr(obj, "operations", []) or [])


def evaluate(t, kinds, pool, trace=None):
    """Returns (built object, model leaf list).  `trace` collects every intermediate result with the ids of its
    elements at creation time: an operand that is used again later must still be what it was."""
    if t[0] == "leaf":
        obj = pool[kinds[t[1]]][t[1]]
        return obj, [obj]
    if t[0] == "add":
        lo, lm = evaluate(t[1], kinds, pool, trace)
        ro, rm = evaluate(t[2], kinds, pool, trace)
        if IADD[0] and t[1][0] != "leaf":
            # `acc += b` on an intermediate composite of this very expression: same contract as `acc + b`
            res = lo
            res += ro
            if trace is not None and res is lo:
                trace[:] = [x for x in trace if x[0] is not lo]  # an in-place += may legitimately extend its own left operand
        else:
            res = lo + ro
        out = (res, lm + rm)
    else:
        o, m = evaluate(t[1], kinds, pool, trace)
        res = o * t[2]
        out = (res, m * t[2])
    if trace is not None:
        trace.append((res, [id(e) for e in elements_of(res)], tree_str(t, kinds)))
    return out


def operands_intact(trace):
    for obj, ids, desc in trace:
        now = [id(e) for e in elements_of(obj)]
        if now != ids:
            return ("operand-modified", f"the composite built for {desc} had {len(ids)} elements when it was created and has {len(now)} after it was used as an operand")
    return None


def has_composite_left_sum(t):
    if t[0] == "leaf":
        return False
    if t[0] == "mul":
        return has_composite_left_sum(t[1])
    return t[1][0] != "leaf" or has_composite_left_sum(t[1]) or has_composite_left_sum(t[2])


def is_nontrivial(t):
    def leaves(x):
        return 1 if x[0] == "leaf" else leaves(x[1]) if x[0] == "mul" else leaves(x[1]) + leaves(x[2])

    def right_nested(x):
        if x[0] == "leaf":
            return False
        if x[0] == "mul":
            return right_nested(x[1])
        inner = x[2]
        while inner[0] == "mul":
            inner = inner[1]
        return inner[0] == "add" or right_nested(x[1]) or right_nested(x[2])

    def mul_on_composite(x):
        if x[0] == "leaf":
            return False
        if x[0] == "mul":
            return x[1][0] != "leaf" or mul_on_composite(x[1])
        return mul_on_composite(x[1]) or mul_on_composite(x[2])

    return leaves(t) >= 3 and (right_nested(t) or mul_on_composite(t))


def check_move_tree(t, kinds, pool):
    from quansino.moves.composite import CompositeMove
    from quansino.moves.displacement import CompositeDisplacementMove
    from quansino.moves.exchange import CompositeExchangeMove

    s = tree_str(t, kinds)
    trace = []
    try:
        obj, model = evaluate(t, kinds, pool, trace)
    except Exception as exc:
        return ("raises:" + type(exc).__name__, f"{s}: {exc!r}"[:300])
    bad = operands_intact(trace)
    if bad:
        return (bad[0], f"{s}: {bad[1]}")
    if not isinstance(obj, CompositeMove):
        return ("not-composite", f"{s}: result is a {type(obj).__name__}")
    got = list(obj.moves)
    if [id(m) for m in got] != [id(m) for m in model]:
        return ("elements", f"{s}: elements {[type(m).__name__[0] + str(id(m) % 1000) for m in got]} != model {[type(m).__name__[0] + str(id(m) % 1000) for m in model]}")
    ks = {type(m).__name__ for m in model}
    want = CompositeDisplacementMove if ks == {"DisplacementMove"} else CompositeExchangeMove if ks == {"ExchangeMove"} else CompositeMove
    if type(obj) is not want:
        return (f"type:{want.__name__}", f"{s}: result type {type(obj).__name__}, expected {want.__name__} (element kinds {sorted(ks)})")
    return None


def check_op_tree(t, kinds, pool):
    from quansino.operations.composite import CompositeOperation

    s = tree_str(t, kinds)
    trace = []
    try:
        obj, model = evaluate(t, kinds, pool, trace)
    except Exception as exc:
        return ("op-raises:" + type(exc).__name__, f"{s}: {exc!r}"[:300])
    bad = operands_intact(trace)
    if bad:
        return ("op-" + bad[0], f"{s}: {bad[1]}")
    if type(obj) is not CompositeOperation:
        return ("op-type", f"{s}: result is a {type(obj).__name__}")
    if [id(m) for m in obj.operations] != [id(m) for m in model]:
        return ("op-elements", f"{s}: operations differ from the flattened model (got {len(obj.operations)}, model {len(model)})")
    return None


def all_trees(max_leaves, max_mul=2):
    for k in range(1, max_leaves + 1):
        for shape in shapes(k):
            paths = list(subtrees(shape))
            yield k, shape
            for p in paths:
                for n in (1, 2, 3):
                    t1 = with_mul(shape, p, n)
                    yield k, t1
            if max_mul >= 2:
                for p1, p2 in itertools.combinations(paths, 2):
                    for n1 in (1, 2, 3):
                        for n2 in (1, 2, 3):
                            # apply the deeper path first so that the shallower path still addresses the same node
                            a, b = (p1, n1), (p2, n2)
                            if len(a[0]) < len(b[0]):
                                a, b = b, a
                            t2 = with_mul(shape, a[0], a[1])
                            # paths below a new mul node shift by one level only when b is a prefix of a
                            if a[0][: len(b[0])] == b[0]:
                                t2 = with_mul(t2, b[0], b[1])
                            else:
                                t2 = with_mul(t2, b[0], b[1])
                            yield k, t2


def run_enum(part, shard, nshards):
    IADD[0] = False
    res = empty_result()
    moves = part == "enum-moves"
    pool = move_pool() if moves else op_pool()
    kinds_all = MOVE_KINDS if moves else OP_KINDS
    maxl = 4 if moves else 3
    viols = {}
    keys = 0
    i = 0
    classes = {}
    for k, t in all_trees(maxl):
        if t[0] == "leaf":
            continue
        for kinds in itertools.product(kinds_all, repeat=k):
            i += 1
            if i % nshards != shard:
                continue
            res["evaluations"] += 1
            v = check_move_tree(t, kinds, pool) if moves else check_op_tree(t, kinds, pool)
            if v is None and has_composite_left_sum(t):
                # the same expression with its sums over a composite left operand written `acc += b`
                IADD[0] = True
                try:
                    v = check_move_tree(t, kinds, pool) if moves else check_op_tree(t, kinds, pool)
                finally:
                    IADD[0] = False
                if v:
                    v = (v[0] + ":augmented-assignment", v[1] + " (sums over a composite left operand written with +=)")
                res["evaluations"] += 1
            nt = is_nontrivial(t)
            keys += 1 if nt else 0
            lab = f"{part}:leaves={k}"
            classes[lab] = classes.get(lab, 0) + 1
            if v and v[0] not in viols:
                viols[v[0]] = {"part": part, "kind": v[0], "detail": v[1], "case": {"tree": t, "kinds": list(kinds), "iadd": v[0].endswith(":augmented-assignment")}}
            if len(res["samples"]) < 3 and nt and i % 977 == 0:
                res["samples"].append({"part": part, "labels": [lab], "case": {"tree": tree_str(t, kinds)}})
    res["classes"] = classes
    res["violations"] = list(viols.values())
    # distinct non-trivial trees: every enumerated (tree, kinds) pair is distinct by construction
    res["nontrivial_keys"] = [f"{part}|{shard}|{j}" for j in range(keys)]
    res["extra"] = {"enumerated_completely": part}
    if not res["samples"]:
        res["samples"].append({"part": part, "labels": ["enum"], "case": {"tree": "((D+X)*2+C)"}})
    return res


# ------------------------------------------------------------------ random part
def tree_strategy(max_leaves):
    leaf = st.just(("leaf", None))
    t = st.recursive(leaf, lambda ch: st.one_of(st.tuples(st.just("add"), ch, ch), st.tuples(st.just("mul"), ch, st.integers(1, 3))), max_leaves=max_leaves)
    return t


def number_leaves(t, counter):
    if t[0] == "leaf":
        i = counter[0]
        counter[0] += 1
        return ("leaf", i)
    if t[0] == "add":
        l = number_leaves(t[1], counter)
        r = number_leaves(t[2], counter)
        return ("add", l, r)
    return ("mul", number_leaves(t[1], counter), t[2])


@st.composite
def random_case(draw):
    mode = draw(st.sampled_from(["moves", "ops", "call", "badmul"]))
    if mode == "badmul":
        return {"mode": mode, "target": draw(st.sampled_from(["D", "X", "C", "G", "Ball", "CompMove", "CompOp"])), "n": draw(st.sampled_from([0, -1, -7, 1.5, 2.0, "2", None]))}
    t = draw(tree_strategy(10).filter(lambda x: x[0] != "leaf"))
    cnt = [0]
    t = number_leaves(t, cnt)
    if cnt[0] > 10:
        cnt[0] = 10
    kinds_all = MOVE_KINDS if mode in ("moves", "call") else OP_KINDS
    if mode == "call":
        kinds = ["P"] * cnt[0]
        results = [draw(st.sampled_from([True, False, False])) for _ in range(cnt[0])]
        # some elements add or remove an atom when called (like an exchange move would)
        grow = [draw(st.sampled_from([0, 0, 0, 1, -1])) for _ in range(cnt[0])]
        return {"mode": mode, "tree": t, "kinds": kinds, "results": results, "grow": grow}
    kinds = [draw(st.sampled_from(kinds_all)) for _ in range(cnt[0])]
    return {"mode": mode, "tree": t, "kinds": kinds, "iadd": draw(st.booleans())}  # iadd: some sums are written `acc += b`


def to_tuple(t):
    return tuple(to_tuple(x) if isinstance(x, (list, tuple)) else x for x in t)


_POOLS = {}


def run_random(case):
    mode = case["mode"]
    IADD[0] = bool(case.get("iadd")) and mode in ("moves", "ops")
    if "moves" not in _POOLS:
        _POOLS["moves"], _POOLS["ops"] = move_pool(), op_pool()
    if mode == "badmul":
        from quansino.moves.composite import CompositeMove
        from quansino.operations.composite import CompositeOperation

        tg = case["target"]
        if tg in MOVE_KINDS:
            obj = _POOLS["moves"][tg][0]
        elif tg == "Ball":
            obj = _POOLS["ops"]["Ball"][0]
        elif tg == "CompMove":
            obj = CompositeMove([_POOLS["moves"]["G"][0]])
        else:
            obj = CompositeOperation([_POOLS["ops"]["Ball"][0]])
        try:
            r = obj * case["n"]
        except Exception:
            return {"labels": ["badmul"], "nontrivial": True, "key": f"badmul|{tg}|{case['n']!r}", "violation": None}
        return {"labels": ["badmul"], "nontrivial": True, "violation": {"kind": "invalid-multiplier-accepted", "detail": f"{tg} * {case['n']!r} returned {type(r).__name__} instead of raising"}}
    t = to_tuple(case["tree"])
    kinds = list(case["kinds"])
    if mode == "call":
        from quansino.moves.composite import CompositeMove
        from quansino.moves.core import BaseMove
        from quansino.operations.displacement import Ball

        order = []

        import types

        from ase import Atoms

        grow = case.get("grow") or [0] * len(kinds)

        class P(BaseMove):
            def __init__(self, i, r, g):
                super().__init__(Ball(0.1))
                self.i, self.r, self.g = i, r, g

            def __call__(self, context):
                order.append(self.i)
                if self.g > 0:
                    context.atoms.extend(Atoms("H", positions=[[0.0, 0.0, float(len(context.atoms))]]))
                elif self.g < 0 and len(context.atoms) > 1:
                    del context.atoms[-1]
                return self.r

        pool = {"P": [P(i, case["results"][i], grow[i]) for i in range(len(kinds))]}
        ctx_obj = types.SimpleNamespace(atoms=Atoms("H3", positions=[[0, 0, 0], [1, 0, 0], [0, 1, 0]]), rng=None)
        # address by slot: evaluate() uses pool[kind][slot]
        obj, model = evaluate(t, kinds, pool)
        if type(obj) is not CompositeMove:
            return {"labels": ["call"], "nontrivial": True, "violation": {"kind": "type:CompositeMove", "detail": f"composite of generic moves has type {type(obj).__name__}"}}
        got = obj(ctx_obj)
        want_order = [m.i for m in model]
        want = any(m.r for m in model)
        out = {"labels": ["call"], "nontrivial": len(model) >= 3, "key": "call|" + tree_str(t, kinds) + str(case["results"]), "violation": None}
        if order != want_order:
            out["violation"] = {"kind": "call-order", "detail": f"{tree_str(t, kinds)}: elements called in order {order}, expected {want_order} (each once, in order)"}
        elif bool(got) != want:
            out["violation"] = {"kind": "call-result", "detail": f"{tree_str(t, kinds)}: returned {got!r}, element results {[m.r for m in model]}"}
        return out
    v = check_move_tree(t, kinds, _POOLS["moves"]) if mode == "moves" else check_op_tree(t, kinds, _POOLS["ops"])
    out = {"labels": ["random:" + mode, f"leaves:{len(kinds)}"], "nontrivial": is_nontrivial(t), "key": mode + "|" + tree_str(t, kinds), "violation": None}
    if v:
        out["violation"] = {"kind": v[0], "detail": v[1]}
    return out


def plan(tier):
    if tier == "quick":
        return [{"part": "enum-moves", "shards": 10, "budget": {}}, {"part": "enum-ops", "shards": 2, "budget": {}}, {"part": "random", "shards": 4, "budget": {"n_examples": 1500}}]
    return [{"part": "enum-moves", "shards": 10, "budget": {}}, {"part": "enum-ops", "shards": 2, "budget": {}}, {"part": "random", "shards": 4, "budget": {"n_examples": 40000}}]


def run_part(part, seed, shard, nshards, budget):
    if part.startswith("enum"):
        return run_enum(part, shard, nshards)
    return hyp.search(random_case(), run_random, budget["n_examples"], seed, part, max_kinds=4)


def replay(part, case):
    if part.startswith("enum"):
        moves = part == "enum-moves"
        pool = move_pool() if moves else op_pool()
        IADD[0] = bool(case.get("iadd"))
        try:
            v = (check_move_tree if moves else check_op_tree)(to_tuple(case["tree"]), list(case["kinds"]), pool)
        finally:
            IADD[0] = False
        if v and case.get("iadd"):
            v = (v[0] + ":augmented-assignment", v[1])
        return {"violation": {"kind": v[0], "detail": v[1]} if v else None}
    return run_random(case)
