"""C19 - reinsertion inverts deletion; molecule search partitions atoms by bonds.

Parts
  reinsert : atoms with generated per-atom arrays; an index subset of any size in any order (list /
             tuple / ndarray / with negative indices); `sub = atoms[idx]; del atoms[idx];
             reinsert_atoms(atoms, sub, idx)` must give back every array bit-for-bit (same set, dtype).
  search   : clustered geometries in generated cells with generated pbc; cutoff scalar or pair dict;
             size filter None / int / tuple; default array None or arbitrary ints.  Oracle: independent
             union-find over brute-force image distances.
"""
from __future__ import annotations

import warnings

import numpy as np
from hypothesis import strategies as st

from vlib import hyp
from vlib import systems as S
from vlib.gen import fl

ID = "C19"
LEVEL = "exploration"
TECHNIQUE = "property-based testing (Hypothesis): round-trip oracle for reinsertion, independent union-find reference model for the molecule search"
RULE = (
    "reinsert: (1-12 atoms, optional tags/momenta/charges/magmoms/masses/2-D float/int32 arrays, index subset of size 1..N in arbitrary order and container type); "
    "non-trivial = unsorted index set with >= 2 extra arrays. search: (2-12 atoms in 1-4 clusters, cell, pbc, cutoff scalar or dict, required_size, default array); "
    "non-trivial = >= 2 components of which at least one is filtered out and a non-None default. distinct = structural key of the case."
)
ASSUMPTIONS = [
    "pairs whose distance lies within 1e-6 of the cutoff are not compared (the case is skipped)",
    "per-atom radius lists as cutoff are not generated (the function's docstring and ASE disagree on their meaning)",
    "labels are compared among atoms of admitted components; every other atom must equal the supplied default (-1 when none)",
    "an ndarray default that is modified in place is reported: the 'supplied default' of any later search would silently contain earlier labels",
]
LEVEL_TEXT = "Bounded exploration of index subsets/array sets and of geometries/cutoffs/filters with exact oracles (byte equality; independent union-find over minimum-image distances)."
LEVEL_NOTE = "Trusted: ASE Atoms slicing/deletion, brute-force image enumeration (-2..2 per periodic axis)."
DESIGN_REF = "DESIGN.md section 3, C19"


# ------------------------------------------------------------------ reinsertion
@st.composite
def reinsert_case(draw):
    desc = draw(S.atoms_desc(min_atoms=1, max_atoms=12, extra_arrays=True, constraints=()))
    n = len(desc["symbols"])
    k = draw(st.integers(1, n))
    idx = draw(st.permutations(list(range(n))).map(lambda p: list(p)[:k]))
    if draw(st.integers(0, 2)) == 0:
        idx = sorted(idx)
    neg = draw(st.lists(st.booleans(), min_size=k, max_size=k)) if draw(st.integers(0, 3)) == 0 else [False] * k
    return {"atoms": desc, "idx": [i - n if ng else i for i, ng in zip(idx, neg)], "container": draw(st.sampled_from(["list", "tuple", "ndarray"]))}


def run_reinsert(case):
    from quansino.utils.atoms import reinsert_atoms

    atoms = S.build_atoms(case["atoms"])
    n = len(atoms)
    ref = S.snapshot_atoms(atoms)
    idx = case["idx"]
    cont = {"list": list, "tuple": tuple, "ndarray": lambda x: np.array(x, dtype=int)}[case["container"]](idx)
    norm = [i % n for i in idx]
    unsorted_ = norm != sorted(norm)
    labels = ["reinsert", "container:" + case["container"]] + (["unsorted"] if unsorted_ else []) + (["negative-index"] if any(i < 0 for i in idx) else [])
    nontrivial = unsorted_ and len(case["atoms"]["arrays"]) >= 2
    key = f"{n}|{sorted(case['atoms']['arrays'])}|{len(idx)}|{unsorted_}|{case['container']}|{any(i < 0 for i in idx)}"
    try:
        with warnings.catch_warnings():
            warnings.simplefilter("ignore")
            sub = atoms[list(idx)]
            del atoms[list(idx)]
            reinsert_atoms(atoms, sub, cont)
    except Exception as exc:
        return {"labels": labels + ["raised"], "nontrivial": True, "key": key, "violation": {"kind": f"reinsert-raises:{type(exc).__name__}", "detail": f"n={n} idx={idx} ({case['container']}) arrays={sorted(case['atoms']['arrays'])}: {exc!r}"[:400]}}
    diffs = S.diff_snapshots(ref, S.snapshot_atoms(atoms))
    diffs = [d for d in diffs if not d.startswith("constraints")]
    out = {"labels": labels, "nontrivial": nontrivial, "key": key, "violation": None}
    if diffs:
        kind = "dtype" if any("dtype" in d for d in diffs) else "arrays"
        out["violation"] = {"kind": f"reinsert-not-inverse:{kind}", "detail": f"n={n} idx={idx} ({case['container']}) arrays={sorted(case['atoms']['arrays'])}: " + "; ".join(diffs[:4])}
    return out


# ------------------------------------------------------------------ molecule search
SYMS = ["H", "O", "C", "N"]


@st.composite
def search_case(draw):
    cell = draw(S.cell_desc(lo=6.0, hi=10.0))
    pbc = draw(st.sampled_from([[True, True, True], [False, False, False], [True, True, False], [True, False, False]]))
    n_clusters = draw(st.integers(1, 4))
    pos, syms = [], []
    for _ in range(n_clusters):
        centre = np.array([draw(fl(0.0, 1.0)) for _ in range(3)]) @ np.array(cell)
        size = draw(st.integers(1, 4))
        for j in range(size):
            pos.append((centre + np.array([draw(fl(-0.8, 0.8)) for _ in range(3)])).tolist())
            syms.append(draw(st.sampled_from(SYMS)))
    pos, syms = pos[:12], syms[:12]
    if len(pos) < 2:
        pos.append((np.array(pos[0]) + 3.0).tolist())
        syms.append("H")
    if draw(st.booleans()):
        cutoff = {"scalar": draw(fl(0.6, 2.2))}
    else:
        pairs = draw(st.lists(st.tuples(st.sampled_from(SYMS), st.sampled_from(SYMS), fl(0.6, 2.2)), min_size=1, max_size=5))
        cutoff = {"dict": [[a, b, c] for a, b, c in pairs]}
    rs = draw(st.one_of(st.none(), st.integers(1, 4), st.tuples(st.integers(0, 3), st.integers(1, 6)).map(lambda t: [min(t), max(t)])))
    default = draw(st.one_of(st.none(), st.lists(st.integers(-5, 9), min_size=len(pos), max_size=len(pos))))
    # a second search right afterwards on the same sites with other species (bonds of a species-pair cutoff change)
    syms2 = [draw(st.sampled_from(SYMS)) for _ in syms] if draw(st.booleans()) else None
    return {"cell": cell, "pbc": pbc, "pos": pos, "syms": syms, "cutoff": cutoff, "required_size": rs, "default": default,
            "default_kind": draw(st.sampled_from(["list", "ndarray"])), "syms2": syms2}


def reference_components(case):
    """Union-find over brute-force image distances; returns (components, min |d - cutoff|)."""
    pos = np.array(case["pos"], dtype=float)
    cell = np.array(case["cell"], dtype=float)
    n = len(pos)
    rng_ = [range(-2, 3) if p else range(0, 1) for p in case["pbc"]]
    shifts = np.array([[a, b, c] for a in rng_[0] for b in rng_[1] for c in rng_[2]], dtype=float) @ cell

    def cut(i, j):
        c = case["cutoff"]
        if "scalar" in c:
            return c["scalar"]
        best = None
        for a, b, v in c["dict"]:
            if {a, b} == {case["syms"][i], case["syms"][j]} and (a != b or case["syms"][i] == case["syms"][j]):
                best = v if best is None else max(best, v)
        return best

    parent = list(range(n))

    def find(x):
        while parent[x] != x:
            parent[x] = parent[parent[x]]
            x = parent[x]
        return x

    margin = np.inf
    for i in range(n):
        for j in range(i + 1, n):
            c = cut(i, j)
            if c is None:
                continue
            d = np.linalg.norm(pos[j] - pos[i] + shifts, axis=1)
            margin = min(margin, float(np.abs(d - c).min()))
            if d.min() < c:
                parent[find(i)] = find(j)
    comps = {}
    for i in range(n):
        comps.setdefault(find(i), []).append(i)
    return list(comps.values()), margin


def run_search(case):
    from ase import Atoms

    from quansino.utils.atoms import search_molecules

    atoms = Atoms(case["syms"], positions=case["pos"], cell=case["cell"], pbc=case["pbc"])
    n = len(atoms)
    comps, margin = reference_components(case)
    labels = ["search", "cutoff:" + ("scalar" if "scalar" in case["cutoff"] else "dict")]
    if margin < 1e-6:
        return {"labels": labels + ["near-cutoff-skipped"], "nontrivial": False, "violation": None}
    cutoff = case["cutoff"]["scalar"] if "scalar" in case["cutoff"] else {(a, b): c for a, b, c in _merge(case["cutoff"]["dict"])}
    rs = case["required_size"]
    rs_arg = None if rs is None else (rs if isinstance(rs, int) else tuple(rs))
    default = case["default"]
    d_arg = None if default is None else (list(default) if case["default_kind"] == "list" else np.array(default, dtype=int))
    lo, hi = (0, n) if rs is None else ((rs, rs) if isinstance(rs, int) else (rs[0], rs[1]))
    admitted = [c for c in comps if lo <= len(c) <= hi]
    filtered = [c for c in comps if not (lo <= len(c) <= hi)]
    nontrivial = len(comps) >= 2 and len(filtered) >= 1 and default is not None
    key = f"{sorted(len(c) for c in comps)}|{rs}|{default is not None}|{labels[1]}|{case['pbc']}|{n}"
    if default is not None:
        labels.append("default:" + case["default_kind"])
    desc = f"n={n} components={[sorted(c) for c in comps]} required_size={rs} default={default} cutoff={case['cutoff']} pbc={case['pbc']}"
    try:
        with warnings.catch_warnings():
            warnings.simplefilter("ignore")
            got = np.asarray(search_molecules(atoms, cutoff, required_size=rs_arg, default_array=d_arg))
    except Exception as exc:
        return {"labels": labels + ["raised"], "nontrivial": True, "key": key, "violation": {"kind": f"search-raises:{type(exc).__name__}" + (":default" if default is not None else ""), "detail": f"{desc}: {exc!r}"[:500]}}
    out = {"labels": labels, "nontrivial": nontrivial, "key": key, "violation": None}
    if isinstance(d_arg, np.ndarray) and not np.array_equal(d_arg, np.array(default, dtype=int)):
        out["violation"] = {"kind": "search-default-modified", "detail": f"{desc}: the caller's default array was modified in place (now {d_arg.tolist()}): a later search with the same array no longer starts from the supplied default"}
        return out
    if got.shape != (n,):
        out["violation"] = {"kind": "search-shape", "detail": f"{desc}: returned shape {got.shape}"}
        return out
    base = np.full(n, -1) if default is None else np.array(default)
    adm_atoms = sorted(i for c in admitted for i in c)
    for i in range(n):
        if i not in adm_atoms and got[i] != base[i]:
            out["violation"] = {"kind": "search-default-not-kept", "detail": f"{desc}: atom {i} is in no admitted molecule but got label {got[i]} (default {base[i]})"}
            return out
    comp_of = {i: k for k, c in enumerate(admitted) for i in c}
    for i in adm_atoms:
        if got[i] < 0:
            out["violation"] = {"kind": "search-negative-label", "detail": f"{desc}: atom {i} of an admitted molecule got label {got[i]}"}
            return out
        for j in adm_atoms:
            if (got[i] == got[j]) != (comp_of[i] == comp_of[j]):
                out["violation"] = {"kind": "search-partition", "detail": f"{desc}: atoms {i},{j} labels {got[i]},{got[j]} but reference components {comp_of[i]},{comp_of[j]}"}
                return out
    if case.get("syms2"):
        # same sites, same cutoff, other species: every call is judged on its own input
        second = run_search(dict(case, syms=case["syms2"], syms2=None))
        out["labels"] = labels + ["second-search-other-species"]
        if second.get("violation"):
            v = second["violation"]
            out["violation"] = {"kind": v["kind"] + ":second-call", "detail": "second search on the same sites after the species were changed: " + v["detail"]}
            out["nontrivial"] = True
    return out


def _merge(pairs):
    """Merge duplicate unordered pairs keeping the largest cutoff (what the reference model assumes)."""
    best = {}
    for a, b, c in pairs:
        k = tuple(sorted((a, b)))
        best[k] = max(best.get(k, 0.0), c)
    return [(a, b, c) for (a, b), c in best.items()]


PARTS = {"reinsert": (reinsert_case, run_reinsert), "search": (search_case, run_search)}


def plan(tier):
    if tier == "quick":
        return [{"part": "reinsert", "shards": 8, "budget": {"n_examples": 2000}}, {"part": "search", "shards": 8, "budget": {"n_examples": 1200}}]
    return [{"part": "reinsert", "shards": 8, "budget": {"n_examples": 30000}}, {"part": "search", "shards": 8, "budget": {"n_examples": 15000}}]


def run_part(part, seed, shard, nshards, budget):
    strat, fn = PARTS[part]
    return hyp.search(strat(), fn, budget["n_examples"], seed, part, max_kinds=3)


def replay(part, case):
    return PARTS[part][1](case)
