"""C14 - Hamiltonian proposals are reversible and correctly thermalised.

Parts
  verlet  : generated smooth potentials (anisotropic harmonic, quartic well, soft pair cluster with
            analytic forces), masses, positions, momenta, time step inside the stability range, number of
            steps.  (a) integrate, negate momenta, integrate, negate -> start restored; (b) same total
            time with dt and dt/2: the maximal total-energy error over the trajectory shrinks ~4x.
  refresh : Maxwell-Boltzmann momentum refresh: every component ~ N(0, m kT) (KS + moment tests on
            200 atoms x 200 draws), forced=True gives the target kinetic temperature; the kinetic energy
            entering the acceptance test (context.last_kinetic_energy) is that of the freshly drawn momenta.
"""
from __future__ import annotations

import warnings

import numpy as np
from ase import Atoms
from ase.units import fs, kB
from hypothesis import strategies as st
from scipy import stats

from vlib import hyp
from vlib.calcs import ModelCalc
from vlib.gen import fl, log10_floats

ID = "C14"
LEVEL = "exploration"
TECHNIQUE = "property-based testing (Hypothesis): metamorphic relations (time reversal, dt -> dt/2 energy-error scaling) and goodness-of-fit of the momentum refresh"
RULE = (
    "verlet: (potential kind, 1-6 atoms, masses, displacements from the minimum, momenta at a generated temperature, dt*omega_max in [0.01,0.3], 1-50 steps); "
    "non-trivial = energy error above rounding and >= 5 steps. refresh: (200 atoms with generated masses, T, seed) x 200 draws, plus moves with a recording distribution; "
    "non-trivial = every executed case. distinct = (potential, N, rounded dt*omega, steps) / (T decade, seed)."
)
ASSUMPTIONS = [
    "reversal tolerance 1e-9 relative to the trajectory amplitude plus a rounding model term (the integrator recomputes momenta from position differences when constraints are applied)",
    "the energy-error ratio is taken on the maximum |E(t)-E(0)| over the trajectory (end-point errors can cross zero) and must lie in [2.8, 5.6] when the coarse error exceeds 1e-9 of the energy scale",
    "statistical tests: KS at alpha 1e-7, |z| < 6 for mean and variance",
]
LEVEL_TEXT = "Bounded exploration over potentials, masses, time steps and seeds with metamorphic oracles that do not depend on the implementation (time reversal; second-order convergence) and distribution tests for the refresh."
LEVEL_NOTE = "Trusted: the analytic model forces (checked against finite differences in the harness' own self-test), scipy.stats."
DESIGN_REF = "DESIGN.md section 3, C14"


@st.composite
def verlet_case(draw):
    kind = draw(st.sampled_from(["harmonic", "quartic", "pair"]))
    n = draw(st.integers(1, 6))
    k = draw(log10_floats(-1, 1.5))
    kvec = [draw(fl(0.3, 3.0)) for _ in range(3)]
    masses = [draw(log10_floats(0, 2.3)) for _ in range(n)]
    return {
        "kind": kind, "n": n, "k": k, "kvec": kvec, "q": draw(fl(0.0, 2.0)), "a": draw(fl(0.05, 1.0)),
        "masses": masses, "disp": [[draw(fl(-0.3, 0.3)) for _ in range(3)] for _ in range(n)],
        "T": draw(log10_floats(1.5, 3.5)), "mom": [[draw(fl(-1.5, 1.5)) for _ in range(3)] for _ in range(n)],
        "x": draw(fl(0.01, 0.3)), "steps": draw(st.integers(1, 50)),
        # the calculator may hold results of an earlier configuration when the integration starts
        "stale": draw(st.booleans()),
        # construct the integrator with another time step and re-tune the public `dt` attribute afterwards
        "retune_dt": draw(st.sampled_from([None, None, 0.5, 3.0])),
        # a rigid bond between the first two atoms (ASE FixBondLength): velocity Verlet with constraints applied to the
        # positions and to both half-kicks stays reversible and second order
        "rigid_bond": n >= 2 and kind == "pair" and draw(st.integers(0, 2)) == 0,
        # the integrator object has run before: an earlier trajectory under ANOTHER calculator ended at these positions
        "warm": draw(st.integers(0, 3)) == 0,
    }


def setup_verlet(case):
    from quansino.mc.contexts import HamiltonianDisplacementContext

    n = case["n"]
    centre = np.array([3.0, 3.0, 3.0])
    base = np.array([[0.9 * i, 0.7 * (i % 2), 0.5 * (i % 3)] for i in range(n)]) if case["kind"] == "pair" else np.zeros((n, 3))
    pos = centre + base + np.array(case["disp"])
    atoms = Atoms("H" * n, positions=pos, cell=[12, 12, 12])
    m = np.array(case["masses"], dtype=float)
    atoms.set_masses(m)
    params = {"k": case["k"], "kvec": case["kvec"], "center": tuple(centre), "q": case["q"], "a": case["a"], "s": 1.5}
    atoms.calc = ModelCalc(case["kind"], params)
    if case.get("rigid_bond"):
        from ase.constraints import FixBondLength

        atoms.set_constraint(FixBondLength(0, 1))
    if case.get("stale"):
        atoms.set_positions(pos + 0.37)
        atoms.get_forces()  # results of another configuration stay cached in the calculator
        atoms.set_positions(pos)
    p = np.array(case["mom"], dtype=float) * np.sqrt(m * kB * case["T"])[:, None]
    atoms.set_momenta(p)
    kmax = case["k"] * max(case["kvec"]) + (12 * case["q"] * 0.3 ** 2 if case["kind"] == "quartic" else 0.0) + (2 * case["a"] / 1.5 ** 2 * 2 if case["kind"] == "pair" else 0.0)
    omega = np.sqrt(kmax / m.min())
    dt_fs = case["x"] / (omega * fs)
    ctx = HamiltonianDisplacementContext(atoms, np.random.default_rng(0))
    return atoms, ctx, dt_fs


def make_verlet(case, dt_fs, n):
    from quansino.integrators.displacement import Verlet

    if case.get("retune_dt"):
        v = Verlet(dt=dt_fs * case["retune_dt"], max_steps=n)
        v.dt = dt_fs * fs  # the attribute is kept in ASE time units
        return v
    return Verlet(dt=dt_fs, max_steps=n)


def run_verlet(case):
    from quansino.integrators.displacement import Verlet

    labels = ["verlet:" + case["kind"]] + (["rigid-bond"] if case.get("rigid_bond") else [])
    try:
        with warnings.catch_warnings():
            warnings.simplefilter("ignore")
            atoms, ctx, dt_fs = setup_verlet(case)
            n = case["steps"]
            v = make_verlet(case, dt_fs, n)
            if case.get("warm") and not case.get("rigid_bond"):
                real_calc, p_case = atoms.calc, atoms.get_momenta().copy()
                atoms.calc = ModelCalc("harmonic", {"k": 3.7 * case["k"], "kvec": [1.0, 2.0, 0.5], "center": (2.0, 3.5, 3.0), "q": 0.0, "a": 0.0, "s": 1.5})
                v.integrate(ctx)  # wherever this ends is where the judged trajectory starts
                atoms.calc = real_calc
                atoms.set_momenta(p_case)
                labels.append("integrator-used-before-under-another-calculator")
            x0, p0 = atoms.positions.copy(), atoms.get_momenta().copy()
            v.integrate(ctx)
            x1, p1 = atoms.positions.copy(), atoms.get_momenta().copy()
            atoms.set_momenta(-p1)
            v.integrate(ctx)
            xb, pb = atoms.positions.copy(), -atoms.get_momenta()
    except Exception as exc:
        return {"labels": labels + ["raised"], "nontrivial": True, "violation": {"kind": f"raises:{type(exc).__name__}", "detail": repr(exc)[:300]}}
    amp = max(float(np.abs(x1 - x0).max()), 1e-6)
    pscale = max(float(np.abs(p0).max()), float(np.abs(p1).max()), 1e-12)
    m = np.array(case["masses"], dtype=float)
    round_p = 4e-16 * 2 * n * float(np.abs(x0).max()) * m.max() / (dt_fs * fs)
    desc = f"{case['kind']} N={case['n']} dt*omega={case['x']:.3g} steps={n}"
    out = {"labels": labels, "nontrivial": False, "key": f"{case['kind']}|{case['n']}|{round(case['x'], 2)}|{n}", "violation": None}
    if np.abs(xb - x0).max() > 1e-9 * amp + 1e-13 * n:
        out["nontrivial"] = True
        out["violation"] = {"kind": "not-reversible:positions", "detail": f"{desc}: forward + momentum-reversed integration misses the start by {np.abs(xb - x0).max():.3e} (trajectory amplitude {amp:.3e})"}
        return out
    if np.abs(pb - p0).max() > 1e-9 * pscale + round_p:
        out["nontrivial"] = True
        out["violation"] = {"kind": "not-reversible:momenta", "detail": f"{desc}: momenta after forward + reversed integration differ by {np.abs(pb - p0).max():.3e} (scale {pscale:.3e})"}
        return out
    # (b) second-order convergence on max |E(t) - E(0)|
    def max_err(dt, nsteps, every):
        with warnings.catch_warnings():
            warnings.simplefilter("ignore")
            a2, c2, _ = setup_verlet(dict(case, stale=False))
            e_start = a2.get_total_energy()
            one = make_verlet(case, dt, 1)
            worst = 0.0
            for i in range(nsteps):
                one.integrate(c2)
                if (i + 1) % every == 0:
                    worst = max(worst, abs(a2.get_total_energy() - e_start))
        return worst, e_start

    if n >= 5:
        coarse, escale = max_err(dt_fs, n, 1)
        fine, _ = max_err(dt_fs / 2, 2 * n, 2)
        ke0 = float((p0 ** 2 / (2 * m[:, None])).sum())
        scale = max(abs(escale), ke0, 1e-12)
        # the quadratic law is asymptotic: it is tested where the dt^2 term dominates.  For some initial conditions that
        # term nearly cancels at the sampled times (error of the size of (dt*omega)^4 x the energy scale) and the dt^4 term
        # shows through, giving any ratio between 2 and 16 with a perfectly second-order integrator.
        if coarse > 1e-9 * scale and coarse > 1e-13 and coarse <= 0.5 * case["x"] ** 4 * scale:
            labels.append("second-order-term-nearly-cancels")
        elif coarse > 1e-9 * scale and coarse > 1e-13:
            out["nontrivial"] = True
            ratio = coarse / max(fine, 1e-300)
            labels.append("ratio-tested")
            if not 2.8 <= ratio <= 5.6:
                out["violation"] = {"kind": "energy-error-order", "detail": f"{desc}: max|E(t)-E0| = {coarse:.3e} with dt and {fine:.3e} with dt/2: ratio {ratio:.2f}, expected about 4 (second order)"}
                return out
    return out


# ------------------------------------------------------------------ refresh
@st.composite
def refresh_case(draw):
    return {"T": draw(log10_floats(0, 4)), "seed": draw(st.integers(0, 2 ** 32)), "mlog": [draw(fl(0, 2.3)) for _ in range(8)], "mode": draw(st.sampled_from(["dist", "dist", "forced", "move"])),
            # forced mode: optional constraints (the kinetic temperature counts the remaining degrees of freedom)
            "constraint": draw(st.sampled_from([None, "FixAtoms", "FixCom", "FixAtoms+FixCom"])), "nfixed": draw(st.integers(1, 150)),
            # move mode: the distribution handed to the move (a recording wrapper, or the shipped one used directly)
            "dist_kind": draw(st.sampled_from(["wrapped", "wrapped-postprocess", "direct", "direct-forced"]))}


def run_refresh(case):
    from quansino.integrators.displacement import Verlet
    from quansino.mc.contexts import HamiltonianDisplacementContext
    from quansino.moves.displacement import HamiltonianDisplacementMove
    from quansino.utils.dynamics import maxwell_boltzmann_distribution

    labels = ["refresh:" + case["mode"]]
    T = case["T"]
    out = {"labels": labels, "nontrivial": True, "key": f"{case['mode']}|{round(np.log10(T), 1)}|{case['seed']}", "violation": None}
    rng = np.random.Generator(np.random.PCG64(case["seed"]))
    try:
        with warnings.catch_warnings():
            warnings.simplefilter("ignore")
            if case["mode"] in ("dist", "forced"):
                n = 200
                masses = 10.0 ** np.resize(np.array(case["mlog"]), n)
                atoms = Atoms("H" * n, positions=np.zeros((n, 3)))
                atoms.set_masses(masses)
                ctx = HamiltonianDisplacementContext(atoms, rng)
                ctx.temperature = T
                if case["mode"] == "forced":
                    con = case.get("constraint")
                    if con:
                        from ase.constraints import FixAtoms, FixCom

                        cons = []
                        if "FixAtoms" in con:
                            cons.append(FixAtoms(indices=list(range(0, n, max(1, n // int(case.get("nfixed", 1))))) [: int(case.get("nfixed", 1))]))
                        if "FixCom" in con and con != "FixAtoms+FixCom":
                            cons.append(FixCom())
                        atoms.set_constraint(cons)
                        labels.append("forced:" + con)
                    for _ in range(20):
                        maxwell_boltzmann_distribution(ctx, forced=True)
                        kt = 2 * atoms.get_kinetic_energy() / atoms.get_number_of_degrees_of_freedom()
                        if abs(kt - kB * T) > 1e-9 * kB * T:
                            out["violation"] = {"kind": "forced-temperature", "detail": f"T={T!r}: forced refresh gives kinetic temperature {kt / kB!r} K"}
                            return out
                    return out
                zs = []
                for _ in range(200):
                    maxwell_boltzmann_distribution(ctx)
                    zs.append(atoms.get_momenta() / np.sqrt(masses * kB * T)[:, None])
                z = np.array(zs).ravel()
                p = stats.kstest(z, "norm").pvalue
                mean_z = z.mean() * np.sqrt(len(z))
                var_z = (z.var() - 1.0) / np.sqrt(2.0 / len(z))
                out["summary"] = {"ks_p": float(p), "mean_z": float(mean_z), "var_z": float(var_z)}
                if p < 1e-7 or abs(mean_z) > 6 or abs(var_z) > 6:
                    out["violation"] = {"kind": "momentum-law", "detail": f"T={T!r}: p/sqrt(m kT) is not standard normal: KS p={p:.2e}, mean z={mean_z:.1f}, variance z={var_z:.1f} (variance {z.var():.4f})"}
                return out
            # mode == move: kinetic energy entering the acceptance test
            n = 3
            atoms = Atoms("H" * n, positions=[[3, 3, 3], [3.4, 3, 3], [3, 3.5, 3]], cell=[12, 12, 12])
            atoms.set_masses(10.0 ** np.array(case["mlog"][:n]))
            atoms.calc = ModelCalc("harmonic", {"k": 1.0, "center": (3.0, 3.0, 3.0)})
            ctx = HamiltonianDisplacementContext(atoms, rng)
            ctx.temperature = T
            recorded = []

            dk = case.get("dist_kind", "wrapped")
            labels.append("dist:" + dk)

            def dist(context):
                maxwell_boltzmann_distribution(context)
                if dk == "wrapped-postprocess":
                    # a user's distribution that post-processes the stock draw (here: halves it)
                    context.atoms.set_momenta(0.5 * context.atoms.get_momenta())
                recorded.append(float(context.atoms.get_kinetic_energy()))

            if dk not in ("wrapped", "wrapped-postprocess"):
                from functools import partial

                dist = partial(maxwell_boltzmann_distribution, forced=(dk == "direct-forced"))

            vetoes = [True, False] if case["seed"] % 2 else [False]
            started = []

            started_p = []

            class StartRecordingVerlet(Verlet):
                def integrate(self, context):
                    started.append(float(context.atoms.get_kinetic_energy()))
                    started_p.append(context.atoms.get_momenta().copy())
                    super().integrate(context)

            mv = HamiltonianDisplacementMove(distribution=dist, operation=StartRecordingVerlet(dt=0.5, max_steps=4))
            it = iter(vetoes)
            mv.check_move = lambda *_a, **_k: not next(it, False)
            from quansino.moves.displacement import DisplacementMove
            from quansino.operations.displacement import Ball

            single = DisplacementMove(np.arange(n), Ball(0.05))
            for trial in range(3):
                it = iter(vetoes)
                if case["seed"] % 3 == 0:
                    # an ordinary single-particle move on the same context comes first (mixed move tables do this)
                    single(ctx)
                    ctx.save_state()
                    if "single-particle-move-first" not in labels:
                        labels.append("single-particle-move-first")
                p_prev = atoms.get_momenta().copy()
                n_started = len(started_p)
                ok = mv(ctx)
                if ok and len(started_p) > n_started and np.any(started_p[-1] == p_prev):
                    same = np.argwhere(started_p[-1] == p_prev).tolist()
                    out["violation"] = {"kind": "momentum-component-not-redrawn", "detail": f"T={T!r}: the trajectory started with momentum components {same[:6]} equal to their values before the refresh (every component must be drawn afresh)"}
                    return out
                if ok and dk not in ("wrapped", "wrapped-postprocess"):
                    # the shipped distribution used directly: the momenta the trajectory starts from are the fresh ones
                    if not started or ctx.last_kinetic_energy != started[-1]:
                        out["violation"] = {"kind": "reference-kinetic-energy", "detail": f"distribution={dk}: context.last_kinetic_energy={ctx.last_kinetic_energy!r} but the trajectory started from momenta with KE={(started[-1] if started else None)!r}"}
                        return out
                    ctx.save_state()
                    continue
                if not ok or not recorded:
                    continue
                if ctx.last_kinetic_energy != recorded[-1]:
                    post = float(atoms.get_kinetic_energy())
                    out["violation"] = {"kind": "reference-kinetic-energy", "detail": f"context.last_kinetic_energy={ctx.last_kinetic_energy!r} but the freshly drawn momenta had KE={recorded[-1]!r} (post-integration KE {post!r})"}
                    return out
                if started and started[-1] != recorded[-1]:
                    out["violation"] = {"kind": "trajectory-not-from-fresh-momenta", "detail": f"the accepted-for-criteria trajectory started with KE={started[-1]!r} but the freshly drawn momenta (and the reference kinetic energy) have KE={recorded[-1]!r} (vetoes={vetoes})"}
                    return out
                ctx.save_state()
            return out
    except Exception as exc:
        out["violation"] = {"kind": f"raises:{type(exc).__name__}", "detail": repr(exc)[:300]}
        return out


PARTS = {"verlet": (verlet_case, run_verlet), "refresh": (refresh_case, run_refresh)}


def plan(tier):
    if tier == "quick":
        return [{"part": "verlet", "shards": 10, "budget": {"n_examples": 500}}, {"part": "refresh", "shards": 6, "budget": {"n_examples": 160}}]
    return [{"part": "verlet", "shards": 10, "budget": {"n_examples": 16000}}, {"part": "refresh", "shards": 6, "budget": {"n_examples": 1600}}]


def run_part(part, seed, shard, nshards, budget):
    strat, fn = PARTS[part]
    return hyp.search(strat(), fn, budget["n_examples"], seed, part)


def replay(part, case):
    return PARTS[part][1](case)
