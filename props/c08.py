"""C08 - every shipped component survives serialization with its full configuration.

Parts
  components : introspective - every concrete serializable class found by walking the package is
               instantiated from a strategy derived from its constructor signature (non-default values,
               nested components to depth 3), tunables are set, then
               to_dict -> ase.io.jsonio encode/decode -> registry.get_class(name).from_dict -> compare.
  simulation : each driver with non-default settings, advanced a few steps, round-tripped likewise.
  imports    : (finite, exhaustive) for every public module M: a fresh interpreter imports M first, then
               the sub-packages, rebuilds a JSON bundle holding one serialised instance of every class and
               re-serialises it; and for every pair (M, home sub-package H of a class): a fresh interpreter
               imports M, then ONLY H, and rebuilds the classes of H (a user restoring a move imports
               quansino.moves, not the whole package; the table entry of quansino.utils is restored
               with the moves and criteria it references imported).
"""
from __future__ import annotations

import importlib
import inspect
import json
import os
import pkgutil
import subprocess
import sys
import warnings

import numpy as np
from hypothesis import strategies as st

from vlib import hyp
from vlib.gen import fl
from vlib.runner import ROOT, empty_result, jsonable

ID = "C08"
LEVEL = "exploration"
TECHNIQUE = "property-based round-trip testing (Hypothesis) over classes found by introspection, plus exhaustive enumeration of first-import orders in fresh interpreters"
RULE = (
    "components: for each concrete class with to_dict/from_dict found by pkgutil.walk_packages, Hypothesis draws constructor arguments by parameter name "
    "(floats != default, flipped booleans, random masks/labels, nested operations/moves to depth 3) and tunables; non-trivial = at least one non-default parameter; "
    "distinct = (class, set of non-default parameter names, nesting depth). simulation: driver x non-default settings x steps. imports: one subprocess per public "
    "module (exhaustive for the modules found); after the first import only the home sub-package of each class is imported before it is rebuilt by name."
)
ASSUMPTIONS = [
    "classes added later are picked up when they follow the package's to_dict/from_dict convention and their constructor parameters are recognised by name; an unknown required parameter makes the class appear under 'not_generated' in the evidence (visible, not silent)",
    "callables (distribution, check_move) are excepted by the statement and not compared",
    "equality is exact (numpy-aware) for parameters and dictionaries",
]
LEVEL_TEXT = (
    "Round-trip exploration with an oracle independent of the implementation (attribute-by-attribute comparison of the rebuilt object plus dictionary idempotence) "
    "for every class the introspection finds, and an exhaustive sweep over which public module a fresh interpreter imports first."
)
LEVEL_NOTE = "Trusted: ase.io.jsonio encode/decode, inspect.signature, the rule that selects concrete components (documented in DESIGN.md C08)."
DESIGN_REF = "DESIGN.md section 3, C08"
EXHAUSTIVE_NOTE = "imports: every public module found by pkgutil.walk_packages is tried as the first import (one fresh interpreter each), alone followed by all sub-packages and paired with each home sub-package imported in isolation"


# ------------------------------------------------------------------ discovery
def discover():
    import quansino

    mods, classes = [], {}
    errors = {}
    for m in pkgutil.walk_packages(quansino.__path__, "quansino."):
        mods.append(m.name)
        try:
            mod = importlib.import_module(m.name)
        except Exception as exc:  # import problems are the import part's subject
            errors[m.name] = repr(exc)
            continue
        for name, obj in vars(mod).items():
            if inspect.isclass(obj) and obj.__module__ == m.name and hasattr(obj, "to_dict") and hasattr(obj, "from_dict"):
                classes[name] = obj
    return mods, classes, errors


def category(cls):
    """Which kind of concrete component a class is, or None for protocols/abstract/placeholders/drivers."""
    from quansino.integrators.core import BaseIntegrator
    from quansino.mc.criteria import BaseCriteria
    from quansino.mc.driver import Driver
    from quansino.moves.composite import CompositeMove
    from quansino.moves.core import BaseMove
    from quansino.operations.composite import CompositeOperation
    from quansino.operations.core import BaseOperation
    from quansino.utils.moves import MoveStorage

    if getattr(cls, "_is_protocol", False) or inspect.isabstract(cls):
        return None
    if issubclass(cls, Driver):
        return "driver"
    if cls is MoveStorage or issubclass(cls, MoveStorage):
        return "storage"
    if issubclass(cls, CompositeMove):
        return "composite_move"
    if issubclass(cls, CompositeOperation):
        return "composite_operation"
    if issubclass(cls, BaseMove):
        return "move" if cls.__call__ is not BaseMove.__call__ else None
    if issubclass(cls, BaseOperation):
        return "operation" if cls.calculate is not BaseOperation.calculate else None
    if issubclass(cls, BaseIntegrator):
        return "integrator" if cls.integrate is not BaseIntegrator.integrate else None
    if issubclass(cls, BaseCriteria):
        return "criteria"
    if hasattr(cls, "calculate"):
        return "operation"
    if hasattr(cls, "integrate"):
        return "integrator"
    if hasattr(cls, "evaluate"):
        return "criteria"
    return None


TUNABLES = {"max_attempts": ("int", 10000), "default_label": ("label", None), "bias_towards_insert": ("unit", 0.5)}
N_LABELS = 4


# ------------------------------------------------------------------ instance descriptions
def op_family(cls):
    """Family of operations a move class works with, from its default operation."""
    try:
        op = cls.default_operation.fget(cls.__new__(cls))  # property evaluated on a bare instance
    except Exception:
        try:
            with warnings.catch_warnings():
                warnings.simplefilter("ignore")
                op = cls().operation
        except Exception:
            return "displacement"
    if hasattr(op, "integrate"):
        return "integrator"
    from quansino.operations.cell import DeformationOperation

    return "deformation" if isinstance(op, DeformationOperation) else "displacement"


@st.composite
def value_for(draw, cname, pname, param, classes, depth):
    """Description of a value for constructor parameter `pname` of class `cname` (or ('skip',) / ('unknown',))."""
    default = param.default
    if pname in ("step_size", "max_value"):
        return ("val", draw(fl(0.01, 2.0)))
    if pname == "dt":
        return ("val", draw(st.one_of(fl(0.1, 5.0), st.sampled_from([0.5, 2.0, 0.1, 3.3]))))
    if pname in ("bias_towards_insert", "probability"):
        return ("val", draw(st.one_of(fl(0.05, 0.95), st.sampled_from([0.0, 1.0]))))
    if pname in ("max_steps", "interval"):
        return ("val", draw(st.integers(1, 50)))
    if pname == "minimum_count":
        return ("val", draw(st.integers(0, 3)))
    if isinstance(default, bool):
        return ("val", draw(st.sampled_from([not default, not default, default])))
    if pname == "mask":
        m = [[draw(st.booleans()) for _ in range(3)] for _ in range(3)]
        return ("mask", m)
    if pname == "labels":
        return ("labels", draw(st.lists(st.integers(-2, 5), min_size=N_LABELS, max_size=N_LABELS)))
    if pname == "operation":
        fam = op_family(classes[cname])
        return ("obj", draw(instance_desc(classes, fam, depth - 1)))
    if pname == "operations":
        fam = draw(st.sampled_from(["displacement", "deformation"]))
        return ("objs", draw(with_twin(st.lists(instance_desc(classes, fam, depth - 1), min_size=1, max_size=3))), draw(st.sampled_from([1, 1, 2])))
    if pname == "moves":
        ann = str(param.annotation)
        want = "ExchangeMove" if "ExchangeMove" in ann else "DisplacementMove" if "DisplacementMove" in ann else None
        if want:
            elems = st.lists(instance_desc(classes, "move:" + want, depth - 1), min_size=1, max_size=3)
        else:
            elems = st.lists(instance_desc(classes, "move", depth - 1), min_size=1, max_size=3)
        return ("objs", draw(with_twin(elems)), draw(st.sampled_from([1, 1, 2])))
    if pname == "move":
        return ("obj", draw(instance_desc(classes, "anymove", depth - 1)))
    if pname == "criteria":
        return ("obj", draw(instance_desc(classes, "criteria", depth - 1)))
    if pname in ("distribution", "check_move") or "Callable" in str(param.annotation):
        return ("skip",)
    if default is inspect.Parameter.empty:
        return ("unknown",)
    return ("skip",)


@st.composite
def with_twin(draw, elems):
    """Sometimes append a twin of one child: equal constructor arguments, other tunables (children that differ only
    in what was set after construction are still different children)."""
    import copy

    xs = list(draw(elems))
    if xs and draw(st.integers(0, 2)) == 0:
        twin = copy.deepcopy(xs[draw(st.integers(0, len(xs) - 1))])
        if "args" in twin:
            tun = {}
            for t, (kind, _d) in TUNABLES.items():
                if draw(st.booleans()):
                    tun[t] = draw(st.integers(1, 500)) if kind == "int" else draw(st.sampled_from([None, -1, 0, 3])) if kind == "label" else draw(fl(0.05, 0.95))
            twin["tun"] = tun
            twin.pop("retune", None)
            xs.append(twin)
    return xs


def family_classes(classes, family):
    from quansino.operations.cell import DeformationOperation

    out = []
    for name, cls in classes.items():
        cat = category(cls)
        if family == "displacement" and cat == "operation" and not issubclass(cls, DeformationOperation):
            out.append(name)
        elif family == "displacement" and cat == "composite_operation":
            out.append(name)
        elif family == "deformation" and cat == "operation" and issubclass(cls, DeformationOperation):
            out.append(name)
        elif family == "integrator" and cat == "integrator":
            out.append(name)
        elif family == "criteria" and cat == "criteria":
            out.append(name)
        elif family == "move" and cat == "move":
            out.append(name)
        elif family == "anymove" and cat in ("move", "composite_move"):
            out.append(name)
        elif family.startswith("move:") and name == family[5:]:
            out.append(name)
    return sorted(out)


@st.composite
def instance_desc(draw, classes, family, depth, cname=None):
    if cname is None:
        names = family_classes(classes, family)
        if depth <= 0:
            # leaves only: no composites at depth 0
            names = [n for n in names if category(classes[n]) not in ("composite_move", "composite_operation")] or names
        cname = draw(st.sampled_from(names))
    cls = classes[cname]
    sig = inspect.signature(cls.__init__)
    args = {}
    for pname, param in list(sig.parameters.items())[1:]:
        if param.kind in (param.VAR_POSITIONAL, param.VAR_KEYWORD):
            continue
        v = draw(value_for(cname, pname, param, classes, max(depth, 0)))
        if v[0] == "unknown":
            return {"cls": cname, "unknown": pname}
        if v[0] != "skip":
            args[pname] = v
    tun = {}
    cat = category(cls)
    if cat in ("move", "composite_move"):
        for t, (kind, _d) in TUNABLES.items():
            if draw(st.booleans()):
                if kind == "int":
                    tun[t] = draw(st.one_of(st.integers(1, 500), st.sampled_from([0, 1, 10, 10000])))  # incl. the classes' own defaults
                elif kind == "label":
                    tun[t] = draw(st.sampled_from([None, -1, 0, 3]))
                else:
                    tun[t] = draw(st.one_of(fl(0.05, 0.95), st.sampled_from([0.0, 1.0])))
    # constructor parameters assigned again after construction under their own attribute name (documented tunables)
    retune = {}
    for pname, param in list(sig.parameters.items())[1:]:
        if pname in args and args[pname][0] == "val" and draw(st.integers(0, 3)) == 0:
            retune[pname] = draw(value_for(cname, pname, param, classes, 0))
    return {"cls": cname, "args": args, "tun": tun, "retune": retune}


def depth_of(desc):
    d = 0
    for v in desc.get("args", {}).values():
        if v[0] == "obj":
            d = max(d, 1 + depth_of(v[1]))
        elif v[0] == "objs":
            d = max([d] + [1 + depth_of(x) for x in v[1]])
    return d


def nested_names(desc):
    out = []
    for v in desc.get("args", {}).values():
        if v[0] == "obj":
            out.append(v[1]["cls"] + "(" + nested_names(v[1]) + ")")
        elif v[0] == "objs":
            out.append("[" + ",".join(x["cls"] + "(" + nested_names(x) + ")" for x in v[1]) + "]")
    return ",".join(out)


def build(desc, classes, top=False):
    res = _build_raw(desc, classes)
    return res if top else res[0]


def _build_raw(desc, classes):
    cls = classes[desc["cls"]]
    kwargs = {}
    for k, v in desc["args"].items():
        if v[0] == "val":
            kwargs[k] = v[1]
        elif v[0] == "mask":
            kwargs[k] = np.array(v[1], dtype=bool)
        elif v[0] == "labels":
            kwargs[k] = np.array(v[1], dtype=int)
        elif v[0] == "obj":
            kwargs[k] = build(v[1], classes)
        elif v[0] == "objs":
            # the same objects repeated in interleaved order ([a, b, a, b]) when the repeat factor is 2
            kwargs[k] = [build(x, classes) for x in v[1]] * (v[2] if len(v) > 2 else 1)
    with warnings.catch_warnings():
        warnings.simplefilter("ignore")
        obj = cls(**kwargs)
    applied = {}
    for t, val in desc.get("tun", {}).items():
        if hasattr(obj, t) or t in getattr(cls, "__slots__", ()):
            try:
                setattr(obj, t, val)
                applied[t] = val
            except AttributeError:
                pass
    from ase.units import fs

    for pname, v in (desc.get("retune") or {}).items():
        if v[0] != "val" or not hasattr(obj, pname):
            continue
        cur = getattr(obj, pname)
        try:
            if pname == "dt" and cur == kwargs.get("dt", 1.0) * fs:
                setattr(obj, pname, v[1] * fs)  # the integrators keep their time step in ASE units
                applied[pname] = v[1] * fs
            elif type(cur) is type(kwargs.get(pname)) and cur == kwargs.get(pname):
                setattr(obj, pname, v[1])  # the attribute holds the parameter as given: assigning it is the tunable
                applied[pname] = v[1]
        except Exception:
            pass
    return obj, kwargs, applied


def same(a, b, path=""):
    """Numpy-aware recursive equality; returns None or a description of the first difference."""
    if hasattr(a, "to_dict") and hasattr(b, "to_dict") and not isinstance(a, dict):
        if type(a) is not type(b):
            return f"{path}: type {type(a).__name__} != {type(b).__name__}"
        return same(a.to_dict(), b.to_dict(), path + ".to_dict()")
    if isinstance(a, dict) and isinstance(b, dict):
        if set(a) != set(b):
            return f"{path}: keys {sorted(a)} != {sorted(b)}"
        for k in a:
            r = same(a[k], b[k], f"{path}[{k!r}]")
            if r:
                return r
        return None
    if isinstance(a, (list, tuple)) and isinstance(b, (list, tuple)):
        if len(a) != len(b):
            return f"{path}: length {len(a)} != {len(b)}"
        for i, (x, y) in enumerate(zip(a, b)):
            r = same(x, y, f"{path}[{i}]")
            if r:
                return r
        return None
    if (hasattr(a, "__array__") and not isinstance(a, np.ndarray)) or (hasattr(b, "__array__") and not isinstance(b, np.ndarray)):
        a, b = np.asarray(a), np.asarray(b)  # ase Cell and friends
    if isinstance(a, np.ndarray) or isinstance(b, np.ndarray):
        x, y = np.asarray(a), np.asarray(b)
        if x.shape != y.shape or not np.array_equal(x, y):
            return f"{path}: array {x.tolist()} != {y.tolist()}"
        return None
    if callable(a) and callable(b):
        return None
    try:
        if a == b or (a != a and b != b):
            return None
    except Exception:
        pass
    return f"{path}: {a!r} != {b!r}"


def roundtrip(obj):
    from ase.io.jsonio import decode, encode

    from quansino.registry import get_class

    d = obj.to_dict()
    d2 = decode(encode(d))
    cls2 = get_class(d2["name"])
    obj2 = cls2.from_dict(d2)
    return d, obj2


def run_component(case, classes=None):
    if classes is None:
        _, classes, _ = discover()
    desc = case["desc"]
    cname = desc["cls"]
    labels = ["class:" + cname]
    if "unknown" in desc:
        return {"labels": labels + ["not-generated"], "nontrivial": False, "violation": None, "summary": f"{cname}: required parameter {desc['unknown']} not recognised"}
    try:
        obj, kwargs, applied = build(desc, classes, top=True)
    except Exception as exc:
        # the generator produced arguments the class rejects: a generator problem, reported but not a violation
        return {"labels": labels + ["construct-failed:" + type(exc).__name__], "nontrivial": False, "violation": None}
    try:
        d, obj2 = roundtrip(obj)
    except Exception as exc:
        return {"labels": labels + ["raised"], "nontrivial": True, "key": cname + "|raise",
                "violation": {"kind": f"roundtrip-raises:{cname}:{type(exc).__name__}", "detail": f"{cname}: to_dict/JSON/from_dict by registered name raised {type(exc).__name__}: {str(exc)[:300]}"}}
    nondefault = sorted(set(list(kwargs) + list(applied)))
    if desc.get("retune") and set(desc["retune"]) & set(applied):
        labels.append("retuned-after-construction")
    out = {"labels": labels, "nontrivial": bool(nondefault), "key": f"{cname}|{','.join(nondefault)}|{depth_of(desc)}|{nested_names(desc)}", "violation": None}
    if type(obj2) is not type(obj):
        out["violation"] = {"kind": f"type-changed:{cname}", "detail": f"rebuilt object is a {type(obj2).__name__}"}
        return out
    for name in list(kwargs) + list(applied):
        try:
            a, b = getattr(obj, name), getattr(obj2, name)
        except AttributeError:
            continue  # parameter not stored under its own name: covered by the dictionary comparison below
        r = same(a, b, name)
        if r and name == "dt" and isinstance(a, float) and isinstance(b, float) and abs(a - b) <= 1e-12 * abs(a):
            r = None  # unit conversion fs <-> ASE time units rounds
        if r:
            out["violation"] = {"kind": f"parameter-lost:{cname}:{name}", "detail": f"{cname}: after the round trip {r}"}
            return out
    try:
        d_again = obj2.to_dict()
    except Exception as exc:
        out["violation"] = {"kind": f"roundtrip-raises:{cname}:{type(exc).__name__}", "detail": f"second to_dict raised {exc!r}"}
        return out
    r = same(d, d_again, "dict")
    if r:
        out["violation"] = {"kind": f"dict-not-idempotent:{cname}", "detail": f"{cname}: serializing the rebuilt object again differs: {r}"}
    return out


# ------------------------------------------------------------------ simulation level
@st.composite
def sim_case(draw):
    driver = draw(st.sampled_from(["Canonical", "HamiltonianCanonical", "Isobaric", "Isotension", "GrandCanonical"]))
    return {
        "driver": driver, "T": draw(fl(50, 3000)), "P": draw(fl(-0.05, 0.2)), "stress": [[draw(fl(-0.1, 0.1)) for _ in range(3)] for _ in range(3)],
        "mu": draw(fl(-2, 2)), "nex": draw(st.integers(1, 7)), "vacc": draw(fl(10, 500)), "species_n": draw(st.integers(1, 3)),
        "max_cycles": draw(st.integers(1, 5)), "seed": draw(st.sampled_from([0, 1, 42, 2 ** 32 + 5, 2 ** 64 + 3])), "steps": draw(st.integers(0, 4)),
        "logging_interval": draw(st.integers(1, 5)),
        # move-table entries: names (incl. the drivers' own default names) and per-entry interval / weight / minimum count
        "default_names": draw(st.booleans()),
        "table": [[draw(st.integers(1, 4)), draw(fl(0.05, 5.0)), draw(st.integers(0, 1))] for _ in range(2)],
        # the first entry's move object listed once more under another name, with its own criteria and schedule
        "alias": draw(st.booleans()),
    }


def build_sim(case):
    from ase import Atoms

    from quansino.mc import canonical, gcmc, isobaric, isotension
    from quansino.moves.cell import CellMove
    from quansino.moves.displacement import DisplacementMove, HamiltonianDisplacementMove
    from quansino.moves.exchange import ExchangeMove
    from vlib.calcs import ModelCalc

    atoms = Atoms("Ar3", positions=[[1, 1, 1], [2.5, 3, 2], [4, 1.5, 3.5]], cell=[5, 5, 5], pbc=True)
    atoms.calc = ModelCalc("pair", {"k": 0.05, "center": (2.5, 2.5, 2.5), "a": 0.4, "s": 1.6, "b": 0.002})
    kw = {"seed": case["seed"], "max_cycles": case["max_cycles"], "logging_interval": case["logging_interval"]}
    d = case["driver"]
    tb = case.get("table") or [[1, 1.0, 0], [1, 1.0, 0]]
    dn = case.get("default_names", False)
    kw["max_cycles"] = max(kw["max_cycles"], tb[0][2] + tb[1][2])

    tune_after = case.get("seed", 0) % 2 == 0

    def add(mc, mv, name, default_name, i):
        nm = default_name if dn else name
        if tune_after:
            # register with the defaults, then tune the entry through its MoveStorage fields (as users and the
            # repository's own tests do)
            mc.add_move(mv, name=nm)
            mc.moves[nm].interval, mc.moves[nm].probability, mc.moves[nm].minimum_count = tb[i][0], tb[i][1], tb[i][2]
        else:
            mc.add_move(mv, name=nm, interval=tb[i][0], probability=tb[i][1], minimum_count=tb[i][2])

    if d == "Canonical":
        mc = canonical.Canonical(atoms, temperature=case["T"], **kw)
        add(mc, DisplacementMove(np.arange(3)), "zz_d", "default_displacement_move", 0)
    elif d == "HamiltonianCanonical":
        mc = canonical.HamiltonianCanonical(atoms, temperature=case["T"], **kw)
        add(mc, HamiltonianDisplacementMove(), "h", "default_displacement_move", 0)
    elif d == "Isobaric":
        mc = isobaric.Isobaric(atoms, temperature=case["T"], pressure=case["P"], **kw)
        add(mc, CellMove(), "zz_c", "default_cell_move", 0)
        add(mc, DisplacementMove(np.arange(3)), "aa_d", "default_displacement_move", 1)
    elif d == "Isotension":
        mc = isotension.Isotension(atoms, temperature=case["T"], pressure=case["P"], external_stress=np.array(case["stress"]), **kw)
        add(mc, CellMove(), "zz_c", "default_cell_move", 0)
        add(mc, DisplacementMove(np.arange(3)), "aa_d", "default_displacement_move", 1)
    else:
        sp = Atoms("Ar" * case["species_n"], positions=[[0, 0, 1.2 * i] for i in range(case["species_n"])])
        if case.get("seed", 0) % 3 != 1:
            # an exchange species with per-atom data of its own (isotope masses, tags)
            sp.set_masses([2.014 + 1.5 * i for i in range(len(sp))])
            sp.set_tags([7 + i for i in range(len(sp))])
        mc = gcmc.GrandCanonical(atoms, exchange_atoms=sp, temperature=case["T"], chemical_potential=case["mu"], number_of_exchange_particles=case["nex"], **kw)
        mc.accessible_volume = case["vacc"]
        add(mc, ExchangeMove(np.arange(3)), "zz_x", "default_exchange_move", 0)
        add(mc, DisplacementMove(np.arange(3)), "aa_d", "default_displacement_move", 1)
    if case.get("alias"):
        from quansino.mc.criteria import CanonicalCriteria, IsobaricCriteria

        first = list(mc.moves)[0]
        other = IsobaricCriteria() if isinstance(mc.moves[first].criteria, CanonicalCriteria) else CanonicalCriteria()
        # practically never scheduled (weight 1e-300): only its place in the table and its serialisation matter here
        mc.add_move(mc.moves[first].move, criteria=other, name="mm_alias", interval=3, probability=1e-300, minimum_count=0)
    return mc


def run_sim(case):
    from ase.io.jsonio import decode, encode

    from quansino.registry import get_class

    labels = ["driver:" + case["driver"]]
    try:
        with warnings.catch_warnings():
            warnings.simplefilter("ignore")
            mc = build_sim(case)
            mc.run(case["steps"])
    except Exception as exc:
        return {"labels": labels + ["run-raised"], "nontrivial": False, "violation": None, "discard": True, "summary": repr(exc)}
    out = {"labels": labels + (["default-names"] if case.get("default_names") else []) + (["move-under-two-names"] if case.get("alias") else []), "nontrivial": True, "key": f"{case['driver']}|{case['steps']}|{case['max_cycles']}|{case['seed']}|{case['logging_interval']}|{case.get('default_names')}|{case.get('table')}", "violation": None}
    try:
        with warnings.catch_warnings():
            warnings.simplefilter("ignore")
            d = mc.to_dict()
            d2 = decode(encode(d))
            mc2 = get_class(d2["name"]).from_dict(d2)
    except Exception as exc:
        out["violation"] = {"kind": f"sim-roundtrip-raises:{case['driver']}:{type(exc).__name__}", "detail": f"{type(exc).__name__}: {str(exc)[:300]}"}
        return out
    if type(mc2) is not type(mc):
        out["violation"] = {"kind": f"sim-type:{case['driver']}", "detail": f"rebuilt simulation is a {type(mc2).__name__}"}
        return out
    settings = ["temperature", "max_cycles", "step_count", "logging_interval"]
    if case["driver"] in ("Isobaric", "Isotension"):
        settings.append("pressure")
    if case["driver"] == "Isotension":
        settings.append("external_stress")
    if case["driver"] == "GrandCanonical":
        settings += ["chemical_potential", "number_of_exchange_particles", "accessible_volume"]
    for s in settings:
        r = same(getattr(mc, s), getattr(mc2, s), s)
        if r:
            out["violation"] = {"kind": f"sim-setting-lost:{case['driver']}:{s}", "detail": f"{case['driver']}: after the round trip {r}"}
            return out
    if mc._seed != mc2._seed:
        out["violation"] = {"kind": f"sim-setting-lost:{case['driver']}:seed", "detail": f"seed {mc._seed} -> {mc2._seed}"}
        return out
    if same(mc._rng.bit_generator.state, mc2._rng.bit_generator.state, "rng_state"):
        out["violation"] = {"kind": f"sim-setting-lost:{case['driver']}:rng_state", "detail": "generator state differs after the round trip"}
        return out
    if case["driver"] == "GrandCanonical":
        a, b = mc.exchange_atoms, mc2.exchange_atoms
        if len(a) != len(b) or not np.array_equal(a.numbers, b.numbers) or not np.array_equal(a.positions, b.positions) \
                or not np.array_equal(a.get_masses(), b.get_masses()) or not np.array_equal(a.get_tags(), b.get_tags()):
            out["violation"] = {"kind": "sim-setting-lost:GrandCanonical:exchange_atoms", "detail": "exchange species differs after the round trip"}
            return out
    if list(mc.moves) != list(mc2.moves):
        out["violation"] = {"kind": f"sim-moves-lost:{case['driver']}", "detail": f"move table (ordered) {list(mc.moves)} -> {list(mc2.moves)}"}
        return out
    for nm in mc.moves:
        a, b = mc.moves[nm], mc2.moves[nm]
        for fld in ("interval", "probability", "minimum_count"):
            if getattr(a, fld) != getattr(b, fld):
                out["violation"] = {"kind": f"sim-table-entry:{fld}", "detail": f"{case['driver']}: entry {nm!r}: {fld} {getattr(a, fld)!r} -> {getattr(b, fld)!r} after the round trip"}
                return out
        if type(a.move) is not type(b.move) or type(a.criteria) is not type(b.criteria):
            out["violation"] = {"kind": "sim-table-entry:type", "detail": f"{case['driver']}: entry {nm!r}: {type(a.move).__name__}/{type(a.criteria).__name__} -> {type(b.move).__name__}/{type(b.criteria).__name__}"}
            return out
    with warnings.catch_warnings():
        warnings.simplefilter("ignore")
        r = same(jsonable_dict(d), jsonable_dict(mc2.to_dict()), "dict")
    if r:
        out["violation"] = {"kind": f"sim-dict-not-idempotent:{case['driver']}", "detail": r[:400]}
    return out


def jsonable_dict(d):
    from ase.io.jsonio import decode, encode

    return decode(encode(d))


# ------------------------------------------------------------------ import order
IMPORT_SCRIPT = r'''
import sys, json, importlib, warnings
warnings.simplefilter("ignore")
first = sys.argv[1]
bundle = json.load(open(sys.argv[2]))      # name -> [home sub-package, encoded dict]
importlib.import_module(first)
from ase.io.jsonio import decode, encode
out = {}
only = sys.argv[3] if len(sys.argv) > 3 else None
# classes are rebuilt sub-package by sub-package, importing ONLY the home sub-package of the class (after `first`):
# a user who restores an operation needs quansino.operations, not the whole package
order = ["quansino.operations", "quansino.integrators", "quansino.moves", "quansino.mc", "quansino.utils"]  # a MoveStorage references moves and criteria: last
if only and only != "quansino.utils":
    # isolated: this interpreter has imported `first` and imports the home sub-package of the class, nothing else
    order = [only]
for home in order:
    if only == "quansino.utils" and home != only:
        importlib.import_module(home)      # a table entry is restored through a driver: moves and criteria are imported
        continue
    items = [(n, v[1]) for n, v in sorted(bundle.items()) if v[0] == home]
    if not items:
        continue
    importlib.import_module(home)
    from quansino.registry import get_class
    for name, text in items:
        d = decode(text)
        try:
            obj = get_class(d["name"]).from_dict(d)
            out[name] = encode(obj.to_dict()) == encode(d)
        except Exception as exc:
            out[name] = f"{type(exc).__name__}: {exc}"[:200]
print("RESULT " + json.dumps(out))
'''


def make_bundle(classes):
    from ase.io.jsonio import encode

    bundle = {}
    for name, cls in sorted(classes.items()):
        cat = category(cls)
        if cat in (None, "driver"):
            continue
        try:
            with warnings.catch_warnings():
                warnings.simplefilter("ignore")
                if cat == "composite_move":
                    inner = classes["ExchangeMove"] if "Exchange" in name else classes["DisplacementMove"]
                    obj = cls([inner(np.arange(3))])
                elif cat == "composite_operation":
                    obj = cls([classes["Ball"](0.2), classes["Box"](0.1)])
                elif cat == "storage":
                    obj = cls(classes["DisplacementMove"](np.arange(3)), classes["CanonicalCriteria"](), 2, 0.7, 1)
                elif cat == "move":
                    sig = inspect.signature(cls.__init__)
                    obj = cls(np.arange(3)) if "labels" in sig.parameters else cls()
                elif cat == "operation":
                    sig = inspect.signature(cls.__init__)
                    obj = cls(0.3) if len(sig.parameters) > 1 else cls()
                else:
                    obj = cls()
            home = ".".join(cls.__module__.split(".")[:2])
            bundle[name] = [home, encode(obj.to_dict())]
        except Exception as exc:
            bundle[name] = None
    return {k: v for k, v in bundle.items() if v is not None}


def run_imports(seed, shard, nshards, budget):
    res = empty_result()
    mods, classes, errors = discover()
    bundle = make_bundle(classes)
    tmp = os.path.join(ROOT, "replays", f".c08_bundle_{os.getpid()}.json")
    os.makedirs(os.path.dirname(tmp), exist_ok=True)
    json.dump(bundle, open(tmp, "w"))
    script = os.path.join(ROOT, "replays", f".c08_import_{os.getpid()}.py")
    open(script, "w").write(IMPORT_SCRIPT)
    mine = []
    keys = []
    try:
        homes = sorted({v[0] for v in bundle.values()})
        pairs = [(m, h) for m in sorted(mods) for h in [None, *homes]]   # None: all homes one after the other in one interpreter
        mine = [p for i, p in enumerate(pairs) if i % nshards == shard]
        for m, h in mine:
            case = {"first": m} if h is None else {"first": m, "home": h}
            out = run_import_case(case, script, tmp)
            res["evaluations"] += 1
            res["classes"][out["labels"][0]] = res["classes"].get(out["labels"][0], 0) + 1
            keys.append(m + ">" + (h or "all"))
            if out["violation"]:
                res["violations"].append({"part": "imports", "kind": out["violation"]["kind"], "detail": out["violation"]["detail"], "case": case})
            if len(res["samples"]) < 2:
                res["samples"].append({"part": "imports", "labels": out["labels"], "case": case, "summary": out.get("summary")})
    finally:
        for p in (tmp, script):
            try:
                os.remove(p)
            except OSError:
                pass
    res["nontrivial_keys"] = ["import|" + k for k in keys]
    res["extra"] = {"import_pairs": [m + ">" + (h or "all") for m, h in mine]}
    return res


def run_import_case(case, script=None, bundle_path=None):
    own = script is None
    if own:
        _, classes, _ = discover()
        bundle_path = os.path.join(ROOT, "replays", f".c08_bundle_{os.getpid()}.json")
        os.makedirs(os.path.dirname(bundle_path), exist_ok=True)
        json.dump(make_bundle(classes), open(bundle_path, "w"))
        script = os.path.join(ROOT, "replays", f".c08_import_{os.getpid()}.py")
        open(script, "w").write(IMPORT_SCRIPT)
    try:
        env = dict(os.environ)
        cp = subprocess.run([sys.executable, script, case["first"], bundle_path, *([case["home"]] if case.get("home") else [])], capture_output=True, text=True, env=env, timeout=300)
    finally:
        if own:
            for p in (bundle_path, script):
                try:
                    os.remove(p)
                except OSError:
                    pass
    first = case["first"] + (f" (then only {case['home']})" if case.get("home") else "")
    out = {"labels": ["import-first-isolated-home" if case.get("home") else "import-first"], "nontrivial": True, "violation": None}
    if cp.returncode != 0:
        err = (cp.stderr.strip().splitlines() or ["?"])[-1]
        out["violation"] = {"kind": "import-order:" + ("circular" if "circular" in cp.stderr or "partially initialized" in cp.stderr else "error"),
                            "detail": f"fresh interpreter importing {first} first fails: {err[:300]}"}
        return out
    line = next((l for l in cp.stdout.splitlines() if l.startswith("RESULT ")), None)
    if line is None:
        out["violation"] = {"kind": "import-order:no-result", "detail": f"importing {first} first: no result line"}
        return out
    results = json.loads(line[7:])
    bad = {k: v for k, v in results.items() if v is not True}
    out["summary"] = {"first": first, "classes_rebuilt": len(results) - len(bad)}
    if bad:
        k0 = sorted(bad)[0]
        out["violation"] = {"kind": "import-order:rebuild:" + k0, "detail": f"after importing {first} first, rebuilding by registered name fails for {sorted(bad)}: {bad[k0]}"}
    return out


# ------------------------------------------------------------------ plumbing
def component_strategy(classes):
    names = sorted(n for n, c in classes.items() if category(c) not in (None, "driver"))
    return st.sampled_from(names).flatmap(lambda n: instance_desc(classes, None, 3, cname=n)).map(lambda d: {"desc": d})


def plan(tier):
    if tier == "quick":
        return [
            {"part": "components", "shards": 10, "budget": {"n_examples": 1000}},
            {"part": "simulation", "shards": 3, "budget": {"n_examples": 250}},
            {"part": "imports", "shards": 16, "budget": {}},
        ]
    return [
        {"part": "components", "shards": 12, "budget": {"n_examples": 40000}},
        {"part": "simulation", "shards": 4, "budget": {"n_examples": 8000}},
        {"part": "imports", "shards": 16, "budget": {}},
    ]


def run_part(part, seed, shard, nshards, budget):
    if part == "imports":
        return run_imports(seed, shard, nshards, budget)
    if part == "simulation":
        return hyp.search(sim_case(), run_sim, budget["n_examples"], seed, part)
    mods, classes, errors = discover()
    res = hyp.search(component_strategy(classes), lambda c: run_component(c, classes), budget["n_examples"], seed, part, max_kinds=6)
    res["extra"] = {"classes_found": sorted(n for n, c in classes.items() if category(c) not in (None, "driver")),
                    "excluded_as_placeholder_or_protocol": sorted(n for n, c in classes.items() if category(c) is None),
                    "drivers": sorted(n for n, c in classes.items() if category(c) == "driver")}
    return res


def replay(part, case):
    if part == "imports":
        return run_import_case(case)
    if part == "simulation":
        return run_sim(case)
    return run_component(case)
