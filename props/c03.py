"""C03 - a rejected or failed trial leaves the system exactly as it was.

Rule-based state machine over the real drivers (vlib/mcmachine.py): scripted accept/reject/fail
histories; a byte-level snapshot of the atoms, of every (sub)move's labels and of the context's
bookkeeping is taken at the yield that precedes each move and compared after it whenever
`mc.move_history` records False (rejected) or None (not completed).
"""
from __future__ import annotations

import numpy as np

from vlib import hyp, mcmachine as M
from vlib import systems as S

ID = "C03"
LEVEL = "exploration"
TECHNIQUE = "stateful property-based testing (Hypothesis RuleBasedStateMachine): generated accept/reject/fail histories over generated move tables, byte-level before/after snapshot oracle"
RULE = (
    "Each example = one generated scenario (ensemble, 2-7 atoms with optional extra arrays and constraints, 1-3 table entries "
    "built from displacement/cell/exchange/Hamiltonian leaves with + and *) followed by up to N rules (trial with scripted "
    "accept/reject/fail, pre-selection, multi-cycle step). Non-trivial = the history contains a rejection or failure after at "
    "least one acceptance; distinct = distinct (ensemble, table shape, set of consecutive-verdict pairs, constraint kind, arrays present)."
)
ASSUMPTIONS = [
    "arrays absent before a trial and present afterwards holding the ASE default (zeros for momenta/tags/initial charges/magmoms, standard masses) are treated as equal: they are indistinguishable through the ASE getters",
    "verdicts are scripted by a criteria double that evaluates the energy like a shipped criteria; the shipped criteria formulas are C02's subject",
    "systems have at most 7 atoms and 3 table entries; nothing in the restore paths depends on size beyond array lengths",
]
LEVEL_TEXT = (
    "Bounded exploration of accept/reject/fail histories through the real MonteCarlo.step() for all five MC drivers, with a "
    "bit-for-bit snapshot oracle that shares no code with the restore paths. The property quantifies over histories and "
    "programs (move tables); a state machine with shrinking is the natural executable form. Absence is not proven."
)
LEVEL_NOTE = "Trusted: ASE Atoms/constraints semantics, the harness snapshot (numpy tobytes), Hypothesis' rule engine."
DESIGN_REF = "DESIGN.md section 3, C03"


def shape(e):
    if e["t"] == "add":
        return f"({shape(e['l'])}+{shape(e['r'])})"
    if e["t"] == "mul":
        return f"{shape(e['e'])}*{e['n']}"
    return e["t"]


class C03Machine(M.MCMachine):
    PROP = ID
    EXTERNAL_EDITS = True  # atoms edited by the user between two run calls: "before the trial" is the edited state

    def on_built(self):
        a = self.scn["atoms"]
        for c in a["constraints"]:
            self.labels.add("constraint:" + c["kind"])
        if a["arrays"]:
            self.labels.add("extra-arrays")
        for e in self.scn["entries"]:
            if e["t"] in ("add", "mul"):
                self.labels.add("composite-entry")
        # known finding fixatoms-rejected-deletion: with it active, no deletion is attempted on constrained atoms
        self.fix_excl = bool(self.scn.get("exclude_fixatoms_deletion") and a["constraints"])
        self.accepted_before = False
        self.bigrams = set()
        self.last_verdict = None
        self.nontriv = False

    def adjust(self, name, outcome, direction):
        if self.fix_excl and direction == "del" and any(hasattr(m, "to_delete_label") for m in self.elementary(name)):
            self.excluded_known += 1
            return outcome, "ins"
        return outcome, direction

    def allow_preselect(self, name, move, what):
        if self.fix_excl and what == "delete":
            self.excluded_known += 1
            return False
        return True

    def _labels_snapshot(self):
        out = []
        for name in self.entry_names():
            for m in self.elementary(name):
                lab = getattr(m, "labels", None)
                out.append(None if lab is None else (str(np.asarray(lab).dtype), np.asarray(lab).tobytes()))
        return out

    def before_move(self, name):
        ctx = self.mc.context
        return {
            "atoms": S.snapshot_atoms(self.atoms),
            "labels": self._labels_snapshot(),
            "nex": getattr(ctx, "number_of_exchange_particles", None),
        }

    def after_move(self, pre, name, verdict):
        key = {True: "A", False: "R", None: "F"}.get(verdict, "?")
        if self.last_verdict is not None:
            self.bigrams.add(self.last_verdict + key)
        self.last_verdict = key
        if verdict is True:
            self.accepted_before = True
            return
        if verdict not in (False, None):
            self.fail("history:bad-verdict", f"move_history recorded {verdict!r} for {name}")
            return
        if self.accepted_before:
            self.nontriv = True
        kind = "rejected" if verdict is False else "failed"
        entry = self.entry_expr(name)
        cls = f"{kind}:{'composite' if entry['t'] in ('add', 'mul') else entry['t']}"
        self.labels.add(cls)
        if self.scn["atoms"]["constraints"] and any(l["t"] == "exch" for l in S.expr_leaves(entry)):
            self.labels.add(kind + ":exchange-with-constraint")
        post = S.snapshot_atoms(self.atoms)
        diffs = S.diff_snapshots(pre["atoms"], post, self.atoms)
        if diffs:
            what = "constraints" if any(d.startswith("constraints") for d in diffs) and len(diffs) == 1 else "atoms"
            self.fail(f"not-restored:{what}:{kind}", f"after a {kind} trial of {name} ({shape(entry)}): " + "; ".join(diffs))
            return
        if pre["labels"] != self._labels_snapshot():
            self.fail(f"labels-changed:{kind}", f"move labels differ after a {kind} trial of {name} ({shape(entry)})")
            return
        ctx = self.mc.context
        if hasattr(ctx, "particle_delta"):
            leaks = []
            if len(ctx._added_indices):
                leaks.append(f"_added_indices={list(ctx._added_indices)}")
            if len(ctx._deleted_indices):
                leaks.append(f"_deleted_indices={list(ctx._deleted_indices)}")
            if ctx.particle_delta != 0:
                leaks.append(f"particle_delta={ctx.particle_delta}")
            if len(ctx._added_atoms) or len(ctx._deleted_atoms):
                leaks.append("pending atoms objects not empty")
            if ctx.number_of_exchange_particles != pre["nex"]:
                leaks.append(f"number_of_exchange_particles {pre['nex']} -> {ctx.number_of_exchange_particles}")
            if leaks:
                self.fail(f"bookkeeping-leak:{kind}", f"after a {kind} trial of {name} ({shape(entry)}): " + ", ".join(leaks))
                return
        for m in self.elementary(name):
            for attr in ("to_displace_labels", "to_add_atoms", "to_delete_label"):
                if getattr(m, attr, None) is not None:
                    self.fail(f"preselection-leak:{attr}:{kind}", f"{type(m).__name__}.{attr}={getattr(m, attr)!r} still set after a {kind} trial of {name} ({shape(entry)})")
                    return

    def is_nontrivial(self):
        return getattr(self, "nontriv", False)

    def distinct_key(self):
        if self.mc is None:
            return None
        a = self.scn["atoms"]
        return "|".join([
            self.scn["ensemble"],
            ",".join(shape(e) for e in self.scn["entries"]),
            "".join(sorted(self.bigrams)),
            ",".join(c["kind"] for c in a["constraints"]),
            ",".join(sorted(a["arrays"])),
        ])


def scenario_strategy(known_active):
    exclude = set()
    if "composite-multi-exchange" in known_active:
        exclude.add("multi-exchange")
    flag = "fixatoms-rejected-deletion" in known_active
    def unconstrained_leaves(s):
        # some displacement leaves switch the (documented) constraint application off: the move may then place a
        # fixed atom anywhere - and a rejection must put it back exactly
        k = 0
        for e in s["entries"]:
            for leaf in S.expr_leaves(e):
                if leaf.get("t") == "disp":
                    k += 1
                    if (s.get("seed", 0) + k) % 3 == 0:
                        leaf["apply_constraints"] = False
        return dict(s, exclude_fixatoms_deletion=flag)

    return M.scenario(exclude=tuple(exclude)).map(unconstrained_leaves)


def _scn(case):
    return case["log"][0]["args"]["scn"] if case.get("log") else {}


def _multi_exchange(case):
    return any(M.exchange_then_labelled(e) for e in _scn(case).get("entries", []))


KNOWN = {
    "composite-multi-exchange": {
        "text": "a composite table entry in which an exchange move is followed by another label-bearing move (exch+disp, exch+exch, exch*k): the later sub-move acts "
                "with labels of the atom numbering before the earlier sub-move changed the atom count (IndexError/ValueError, wrong atoms moved/deleted/restored)",
        "match": lambda part, kind, case: _multi_exchange(case),
    },
    "fixatoms-rejected-deletion": {
        "text": "GrandCanonical with a FixAtoms constraint: a rejected deletion re-inserts the atoms but the constraint indices shifted by `del atoms[i]` are not restored (other atoms end up fixed / the constraint disappears)",
        "match": lambda part, kind, case: kind.startswith("not-restored:constraints") and _scn(case).get("ensemble") == "GrandCanonical"
        and any(c["kind"] == "FixAtoms" for c in _scn(case).get("atoms", {}).get("constraints", [])),
    },
}


def plan(tier):
    if tier == "quick":
        return [{"part": "machine", "shards": 16, "budget": {"n_examples": 300, "steps": 25}}]
    return [{"part": "machine", "shards": 16, "budget": {"n_examples": 4000, "steps": 50}}]


def run_part(part, seed, shard, nshards, budget):
    strat = scenario_strategy(set(budget.get("known_active", [])))
    return hyp.run_machine(lambda sink: M.specialise(C03Machine, sink, strat), budget["n_examples"], budget["steps"], seed, part)


def replay(part, case):
    return M.replay_log(C03Machine, case)
