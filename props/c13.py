"""C13 - force-bias steps are bounded and follow the published force-biased (Bal-Neyts) density.

A calculator returning prescribed forces whatever the positions; a harness subclass of ForceBias that
counts the rejection-sampling rounds (and aborts at 10 000).
  bound   : many short runs over forces spanning gamma = F*delta/2kT in {0, +-1e-3 ... +-1e6, mixed},
            scalar / per-coordinate delta, masses, mass-scaling power (scalar, array, dict):
            per step |dx| <= delta*(m_min/m)^p, dx == zeta*delta*scaling, rounds < 10 000.
  density : 20 000 steps per case; per coordinate the zeta samples are tested against the analytic CDF
            (Kolmogorov-Smirnov, alpha 1e-7); zero-force coordinates are tested for symmetry only.
"""
from __future__ import annotations

import warnings

import numpy as np
from ase import Atoms
from ase.units import kB
from hypothesis import strategies as st
from scipy import stats

from vlib import hyp
from vlib.calcs import FastCalc
from vlib.gen import fl, log10_floats

ID = "C13"
LEVEL = "exploration"
TECHNIQUE = "property-based testing (Hypothesis): per-step bound/termination predicates over extreme forces, and Kolmogorov-Smirnov tests of sampled displacements against the closed-form CDF"
RULE = (
    "bound: (1-8 atoms, masses, forces with gamma from 0 to +-1e6 incl. mixed, delta scalar or (N,3), T, power scalar/array/dict, seed) x 30 steps; "
    "bound cases optionally change the masses mid-run through update_masses() or use the adaptive driver (delta recomputed per step); "
    "density: 20000 steps of one configuration, KS per coordinate plus an extreme-value test (a sample whose total probability over the run is below 1e-9). Non-trivial = a coordinate with 0.1<=|gamma|<=50 (informative density) or |gamma|>=700 (clipping region); "
    "distinct = (N, rounded log|gamma| pattern, delta kind, power kind)."
)
ASSUMPTIONS = [
    "KS tests at alpha = 1e-7 per coordinate (<= 24 coordinates x ~100 cases per run)",
    "displacement == zeta*delta*scaling is compared with relative tolerance 1e-12 (the step converts through momenta)",
    "no constraints are attached (the statement's 'absent constraints')",
    "coordinates with 0 < |gamma| < 1e-11 are at rounding level: only the bound and termination clauses are checked there (observed: the sampler is biased by a few percent at |gamma| ~ 1e-15 because exp(g)-exp(-g) cancels; outside the stated density domain)",
]
LEVEL_TEXT = (
    "Bounded exploration of the force/temperature/delta/mass domain including overflow-scale forces, with hard per-step predicates and a goodness-of-fit test "
    "against the analytic density evaluated in a numerically stable form."
)
LEVEL_NOTE = "Trusted: the closed-form CDF derived from the published trial probability (normalisation checked analytically), scipy.stats.kstest."
DESIGN_REF = "DESIGN.md section 3, C13"

GAMMAS = [0.0, 1e-10, -2e-9, 4e-9, 1e-6, -1e-6, 1e-3, -1e-3, 0.05, -0.05, 0.3, -0.3, 1.0, -1.0, 3.0, -3.0, 10.0, -10.0, 30.0, -30.0, 700.0, -700.0, 720.0, -720.0, 1e4, -1e6, 1e6]


def cdf(z, g):
    """CDF of the Bal-Neyts density on [-1, 1] for gamma = g (stable for tiny and huge |g|)."""
    z = np.asarray(z, dtype=float)
    if g < 0:
        return 1.0 - cdf(-z, -g)
    if g < 1e-3:
        # series in gamma: p(z) = (1-|z|)(1+g z) + O(g^2); avoids the cancellation of the closed form
        zm, zp = np.minimum(z, 0.0), np.maximum(z, 0.0)
        lo_s = (1 + zm) ** 2 / 2 + g * (zm ** 2 / 2 + zm ** 3 / 3 - 1.0 / 6.0)
        hi_s = 0.5 - g / 6 + zp - zp ** 2 / 2 + g * (zp ** 2 / 2 - zp ** 3 / 3)
        return np.where(z <= 0, lo_s, hi_s)
    q = np.exp(-2.0 * g)
    dp = -np.expm1(-2.0 * g)  # 1 - q
    zm = np.minimum(z, 0.0)
    if g < 1e-2:
        lo = q * (np.expm1(2.0 * g * (zm + 1.0)) / (2.0 * g) - (zm + 1.0)) / dp
    else:
        lo = ((np.exp(2.0 * g * zm) - q) / (2.0 * g) - q * (zm + 1.0)) / dp
    zp = np.maximum(z, 0.0)
    hi = (dp / (2.0 * g) - q + zp - (np.exp(2.0 * g * (zp - 1.0)) - q) / (2.0 * g)) / dp
    return np.where(z <= 0, lo, hi)


@st.composite
def case_st(draw, density=False):
    n = draw(st.integers(1, 4 if density else 8))
    T = draw(log10_floats(1, 3.5))
    delta_kind = draw(st.sampled_from(["scalar", "scalar", "array"]))
    delta = draw(log10_floats(-2, 0))
    deltas = [[draw(log10_floats(-2, 0)) for _ in range(3)] for _ in range(n)] if delta_kind == "array" else None
    gam = [[draw(st.one_of(st.sampled_from(GAMMAS), fl(-5, 5), fl(-60, 60))) for _ in range(3)] for _ in range(n)]
    power_kind = draw(st.sampled_from(["default", "scalar", "array", "dict"]))
    case = {
        "n": n, "T": T, "delta": delta, "deltas": deltas, "gamma": gam,
        "masses": [draw(fl(1, 200)) for _ in range(n)], "symbols": [draw(st.sampled_from(["Cu", "H", "O"])) for _ in range(n)],
        "power_kind": power_kind, "power": draw(fl(0.0, 1.0)), "powers": [[draw(fl(0.0, 1.0)) for _ in range(3)] for _ in range(n)],
        "power_dict": {"Cu": draw(fl(0, 1)), "H": draw(fl(0, 1))},
        "seed": draw(st.integers(0, 2 ** 32)), "steps": 20000 if density else 30,
        # documented way to change masses during a run: atoms.set_masses(...) followed by update_masses()
        "remass_at": None if density else draw(st.one_of(st.none(), st.integers(1, 20))),
        # the adaptive driver recomputes a per-coordinate delta before every step (bound part only)
        "adaptive": (not density) and draw(st.integers(0, 3)) == 0,
        "new_masses": [draw(fl(1, 200)) for _ in range(n)],
        # update_masses(masses): scaling masses of the user's choice, different from the atoms' own (else the atoms' masses are re-read)
        "remass_custom": draw(st.booleans()),
        # forces so large that F*delta/2kT itself overflows a double (still finite forces): [i, j, value]
        "huge": [[draw(st.integers(0, n - 1)), draw(st.integers(0, 2)), draw(st.sampled_from([1e300, -1e300, 1e307, -1e307, 1.5e308, -1.5e308, 1.7976931348623157e308]))]
                 for _ in range(draw(st.sampled_from([0, 0, 1, 2])))],
        # the calculator attached to the atoms is exchanged between steps (forces change sign, positions do not):
        # every step must be biased along the force of the calculator attached when it is taken
        "flip_every": draw(st.sampled_from([None, None, 1, 3])),
    }
    return case


def build(case):
    from quansino.mc.fbmc import ForceBias

    n = case["n"]
    atoms = Atoms(case["symbols"], positions=[[2.0 * i, 0.5 * i, 0.0] for i in range(n)], cell=[30, 30, 30])
    atoms.set_masses(case["masses"])
    delta = np.array(case["deltas"], dtype=float) if case["deltas"] is not None else float(case["delta"])
    kT = kB * case["T"]
    gam = np.array(case["gamma"], dtype=float)
    forces = gam * 2.0 * kT / delta
    for i, j, val in case.get("huge") or []:
        forces[i, j] = val
        gam[i, j] = np.sign(val) * 1e9  # far in the documented clipping region (|gamma| is clipped at 709.78)
    atoms.calc = FastCalc("constforce", {"forces": forces.tolist()})

    adaptive = bool(case.get("adaptive"))
    if adaptive:
        from quansino.mc.fbmc import AdaptiveForceBias

        atoms.calc.results_extra = None
    Base = AdaptiveForceBias if adaptive else ForceBias

    class Counting(Base):
        rounds = 0

        def get_zeta(self):
            self.rounds += 1
            if self.rounds > 10000:
                raise RuntimeError("rejection sampling did not terminate within 10000 rounds")
            return super().get_zeta()

    with warnings.catch_warnings():
        warnings.simplefilter("ignore")
        # the driver gets its own copy of a per-coordinate delta: the oracle keeps the values the user passed
        if adaptive:
            dmax = float(np.max(delta))
            mc = Counting(atoms, min_delta=0.25 * dmax, max_delta=dmax, temperature=case["T"], seed=case["seed"])
        else:
            retemp = case["seed"] % 2 == 0
            mc = Counting(atoms, delta=(delta.copy() if isinstance(delta, np.ndarray) else delta), temperature=(case["T"] * 7.3 if retemp else case["T"]), seed=case["seed"])
            if retemp:
                mc.temperature = case["T"]  # the public attribute re-tuned on the live driver; steps are then taken directly
        pk = case["power_kind"]
        if pk == "scalar":
            mc.masses_scaling_power = float(case["power"])
        elif pk == "array":
            mc.masses_scaling_power = np.array(case["powers"], dtype=float)
        elif pk == "dict":
            mc.masses_scaling_power = dict(case["power_dict"])
    m = np.array(case["masses"], dtype=float)[:, None] * np.ones((1, 3))
    if pk == "default":
        p = 0.25
    elif pk == "scalar":
        p = float(case["power"])
    elif pk == "array":
        p = np.array(case["powers"], dtype=float)
    else:
        p = np.array([[case["power_dict"].get(s, 0.25)] * 3 for s in case["symbols"]], dtype=float)
    scaling = np.power(m.min() / m, p)
    return mc, atoms, delta, scaling, gam, forces, p


def run_case(case):
    density = case["steps"] > 1000
    labels = ["density" if density else "bound", "delta:" + ("adaptive" if case.get("adaptive") else "array" if case["deltas"] is not None else "scalar"), "power:" + case["power_kind"]]
    try:
        mc, atoms, delta, scaling, gam, forces, pexp = build(case)
    except Exception as exc:
        return {"labels": labels + ["raised"], "nontrivial": True, "violation": {"kind": f"build-raises:{type(exc).__name__}", "detail": repr(exc)[:300]}}
    ag = np.abs(gam)
    nontrivial = bool(np.any((ag >= 0.1) & (ag <= 50)) or np.any(ag >= 700))
    pattern = sorted({("0" if g == 0 else str(int(np.floor(np.log10(abs(g)))))) + ("-" if g < 0 else "+") for g in gam.ravel()})
    out = {"labels": labels, "nontrivial": nontrivial, "key": f"{case['n']}|{pattern}|{labels[1]}|{labels[2]}|{'d' if density else 'b'}", "violation": None, "weight": case["steps"]}
    zs = []
    if case.get("flip_every"):
        calc_pos = atoms.calc
        calc_neg = FastCalc("constforce", {"forces": (-forces).tolist()})
        out["labels"] = sorted(set(out["labels"]) | {"calculator-exchanged-between-steps"})
    if case.get("huge"):
        out["labels"] = sorted(set(out["labels"]) | {"force-overflows-gamma"})
    bound = np.abs(delta * scaling)
    desc = f"N={case['n']} T={case['T']:.4g} delta={'array' if case['deltas'] is not None else case['delta']} gamma={np.round(gam, 4).tolist()} power={case['power_kind']}"
    try:
        with warnings.catch_warnings():
            warnings.simplefilter("ignore")
            for istep in range(case["steps"]):
                if case.get("remass_at") is not None and istep == case["remass_at"]:
                    if case.get("remass_custom"):
                        mc.update_masses(np.array(case["new_masses"], dtype=float)[:, None] * np.ones((1, 3)))
                        out["labels"] = sorted(set(out["labels"]) | {"scaling-masses-differ-from-atoms"})
                    else:
                        atoms.set_masses(case["new_masses"])
                        mc.update_masses()
                    m2 = np.array(case["new_masses"], dtype=float)[:, None] * np.ones((1, 3))
                    scaling = np.power(m2.min() / m2, pexp)
                    bound = np.abs(delta * scaling)
                    out["labels"] = sorted(set(out["labels"]) | {"masses-updated-mid-run"})
                sign = 1.0
                if case.get("flip_every"):
                    if (istep // case["flip_every"]) % 2 == 1:
                        sign = -1.0
                    if istep % case["flip_every"] == 0:
                        atoms.calc = calc_neg if sign < 0 else calc_pos
                before = atoms.positions.copy()
                mc.rounds = 0
                mc.step()
                dx = atoms.positions - before
                z = np.asarray(mc.zeta, dtype=float)
                if case.get("adaptive"):
                    # the step length actually used is the driver's documented `delta` attribute after update_delta()
                    delta = np.asarray(mc.delta, dtype=float)
                    if np.any(delta < 0.25 * float(np.max(np.abs(np.asarray(case["deltas"] if case["deltas"] is not None else case["delta"])))) * (1 - 1e-12)) or np.any(delta > float(np.max(np.abs(np.asarray(case["deltas"] if case["deltas"] is not None else case["delta"])))) * (1 + 1e-12)):
                        out["violation"] = {"kind": "adaptive-delta-out-of-range", "detail": f"{desc}: adaptive delta {delta.tolist()} outside [min_delta, max_delta]"}
                        return out
                    bound = np.abs(delta * scaling)
                if not np.all(np.isfinite(dx)):
                    out["violation"] = {"kind": "non-finite-displacement", "detail": f"{desc}: displacement contains NaN/inf"}
                    return out
                if np.any(np.abs(dx) > bound * (1 + 1e-12) + 1e-300):
                    i = np.unravel_index(np.argmax(np.abs(dx) - bound), dx.shape)
                    out["violation"] = {"kind": "bound-exceeded", "detail": f"{desc}: |dx|={abs(dx[i])!r} exceeds delta*(m_min/m)^p={bound[i] if np.ndim(bound) else bound!r} at coordinate {i}"}
                    return out
                exp = z * delta * scaling
                if np.any(np.abs(dx - exp) > 1e-12 * np.abs(exp) + 1e-15 * (1 + np.abs(before))):
                    out["violation"] = {"kind": "displacement-not-zeta", "detail": f"{desc}: position change differs from zeta*delta*scaling by {np.abs(dx - exp).max():.3e} (configuration advanced more or less than once)"}
                    return out
                if density:
                    zs.append(sign * z)  # p(z; -gamma) = p(-z; gamma)
    except RuntimeError as exc:
        out["violation"] = {"kind": "no-termination", "detail": f"{desc}: {exc}"}
        return out
    except Exception as exc:
        out["violation"] = {"kind": f"raises:{type(exc).__name__}", "detail": f"{desc}: {exc!r}"[:400]}
        return out
    if density:
        zs = np.array(zs)
        pmin = 1.0
        for i in range(case["n"]):
            for j in range(3):
                g = gam[i, j]
                s = zs[:, i, j]
                if 0 < abs(g) < 1e-11:
                    # at rounding level the statement makes no distributional claim (neither exactly zero nor above rounding)
                    out["labels"] = sorted(set(out["labels"]) | {"rounding-level-gamma-skipped"})
                    continue
                if g == 0:
                    half = len(s) // 2
                    p = stats.ks_2samp(s[:half], -s[half:]).pvalue
                    kind = "zero-force-asymmetric"
                else:
                    p = stats.kstest(s, lambda x, g=g: cdf(x, min(max(g, -1e5), 1e5))).pvalue
                    kind = "density"
                    if abs(g) >= 0.3 and np.sign(s.mean()) != np.sign(g):
                        out["violation"] = {"kind": "bias-direction", "detail": f"{desc}: coordinate ({i},{j}) gamma={g}: mean zeta {s.mean():.4f} points against the force"}
                        return out
                if g != 0:
                    # extreme-value test: a sample in a region whose total probability over n draws is below 1e-9 is
                    # (practically) impossible under the Bal-Neyts law - KS cannot see a handful of such samples
                    gg = min(max(g, -709.782712), 709.782712)  # the sampler documents that gamma is clipped there
                    lo_p = float(cdf(np.array([s.min()]), gg)[0]) * len(s)
                    hi_p = float(1.0 - cdf(np.array([s.max()]), gg)[0]) * len(s)
                    worst = min(lo_p, hi_p)
                    if 0 <= worst < 1e-9 and abs(g) >= 5:
                        bad = s.min() if lo_p < hi_p else s.max()
                        out["violation"] = {"kind": "impossible-sample", "detail": f"{desc}: coordinate ({i},{j}) gamma={g!r}: a step zeta={bad:.4f} occurred although the density gives it a total probability of {worst:.1e} over {len(s)} steps (against-the-force step at large gamma)"}
                        return out
                pmin = min(pmin, p)
                if p < 1e-7:
                    out["violation"] = {"kind": kind, "detail": f"{desc}: coordinate ({i},{j}) gamma={g!r}: zeta samples reject the Bal-Neyts CDF (KS p={p:.2e}, mean zeta {s.mean():.4f}, n={len(s)})"}
                    return out
        out["summary"] = {"min_p": float(pmin)}
    return out


def plan(tier):
    if tier == "quick":
        return [{"part": "bound", "shards": 8, "budget": {"n_examples": 250}}, {"part": "density", "shards": 8, "budget": {"n_examples": 6}}]
    return [{"part": "bound", "shards": 8, "budget": {"n_examples": 15000}}, {"part": "density", "shards": 8, "budget": {"n_examples": 150}}]


def run_part(part, seed, shard, nshards, budget):
    return hyp.search(case_st(density=(part == "density")), run_case, budget["n_examples"], seed, part, shrink=(part == "bound"), skip_zero=(part == "density"))


def replay(part, case):
    return run_case(case)
