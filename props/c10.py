"""C10 - proposal operations stay within their advertised geometry and are symmetric.

Parts
  draws : hard per-draw predicates on `operation.calculate(context)` for every shipped operation
          (ball/sphere/box bounds, translation centroid inside the cell and common vector, rigid rotation
          about the centre of mass, composite = sum of parts, deformation-gradient structure, masks).
  dist  : per generated case 20 000 draws; the proposal and its inverse must have the same law
          (two-sample Kolmogorov-Smirnov on projections of d vs -d, of log F vs -log F, of rotation
          vectors w vs -w); translation centroids uniform per fractional axis.
"""
from __future__ import annotations

import warnings

import numpy as np
from ase import Atoms
from hypothesis import strategies as st
from scipy import stats
from scipy.spatial.transform import Rotation as R

from vlib import hyp
from vlib.gen import fl, log10_floats

ID = "C10"
LEVEL = "exploration"
TECHNIQUE = "property-based testing (Hypothesis): geometric predicates on every draw of generated operations, plus two-sample symmetry tests (KS, alpha 1e-7) on projections of proposal vs inverse proposal"
RULE = (
    "draws: (operation kind, step size / max strain in 1e-3..10, cell incl. triclinic, group of 1-6 atoms with masses, 3x3 mask, generator seed) x 40 draws each; "
    "non-trivial = every executed case (each draw is checked); distinct = (kind, rounded size, mask, cell class, group size). "
    "dist: 20000 draws per case; non-trivial = case with >= 1e4 draws; distinct = (kind, rounded size, cell class)."
)
ASSUMPTIONS = [
    "symmetry is tested on 3 fixed + 3 generated projections by two-sample KS at alpha = 1e-7 per test; ball-radius and direction uniformity are not asserted (the statement asks for bounds and symmetry only)",
    "rotations are recovered from the returned displacements by a Kabsch fit on non-collinear groups of >= 3 atoms",
    "the composite operation is compared with the sum of its parts evaluated sequentially on a cloned generator (the class documents sequential execution)",
]
LEVEL_TEXT = (
    "Bounded exploration over operation parameters, cells, groups, masks and generator states with exact geometric predicates on every draw and a statistical "
    "symmetry test with stated false-alarm level per case."
)
LEVEL_NOTE = "Trusted: scipy KS tests and Rotation utilities; numpy eigh for the matrix logarithm of SPD matrices."
DESIGN_REF = "DESIGN.md section 3, C10"

DISP = ["Ball", "Sphere", "Box", "Translation", "Rotation", "TranslationRotation", "Composite"]
DEFS = ["IsotropicDeformation", "AnisotropicDeformation", "ShapeDeformation"]


@st.composite
def cell_st(draw):
    a, b, c = draw(fl(3, 12)), draw(fl(3, 12)), draw(fl(3, 12))
    m = np.diag([a, b, c]).astype(float)
    kind = draw(st.sampled_from(["ortho", "tri"]))
    if kind == "tri":
        m[1, 0] = draw(fl(-0.4, 0.4)) * a
        m[2, 0] = draw(fl(-0.4, 0.4)) * a
        m[2, 1] = draw(fl(-0.4, 0.4)) * b
    return {"kind": kind, "m": m.tolist()}


@st.composite
def group_st(draw, min_atoms=1):
    k = draw(st.integers(min_atoms, 6))
    pos = [[draw(fl(-1.5, 1.5)) for _ in range(3)] for _ in range(k)]
    if k >= 3:  # make the first three atoms non-collinear by construction
        pos[0], pos[1], pos[2] = [0.0, 0.0, 0.0], [draw(fl(0.7, 1.5)), 0.0, 0.0], [draw(fl(-1, 1)), draw(fl(0.7, 1.5)), 0.0]
    if k >= 4:
        pos[3][2] = draw(fl(0.6, 1.5))
    return {"pos": pos, "masses": [draw(fl(1, 100)) for _ in range(k)], "origin": [draw(fl(0.5, 2.5)) for _ in range(3)]}


@st.composite
def op_st(draw, kinds):
    kind = draw(st.sampled_from(kinds))
    d = {"kind": kind}
    if kind in ("Ball", "Sphere", "Box"):
        d["size"] = draw(st.one_of(log10_floats(-3, 1), log10_floats(-3, 1), st.sampled_from([1, 2, 5])))  # integer step sizes are numbers too
    elif kind == "Composite":
        d["parts"] = draw(st.lists(op_st(["Ball", "Sphere", "Box", "Probe", "Composite2", "Rotation", "Translation", "TranslationRotation"]), min_size=1, max_size=3))
    elif kind == "Composite2":
        d["parts"] = draw(st.lists(op_st(["Ball", "Box", "Probe"]), min_size=1, max_size=2))
    elif kind == "Probe":
        d["value"] = [draw(fl(-1, 1)) for _ in range(3)]
    elif kind in DEFS:
        d["size"] = draw(log10_floats(-3, 0))
        if draw(st.booleans()):
            d["mask"] = [[draw(st.booleans()) for _ in range(3)] for _ in range(3)]
    return d


def build_op(d):
    from quansino.operations import cell as oc
    from quansino.operations import displacement as od
    from quansino.operations.composite import CompositeOperation
    from quansino.operations.core import BaseOperation

    k = d["kind"]
    if k in ("Ball", "Sphere", "Box"):
        return getattr(od, k)(d["size"])
    if k in ("Translation", "Rotation", "TranslationRotation"):
        return getattr(od, k)()
    if k in ("Composite", "Composite2"):
        parts = [build_op(p) for p in d["parts"]]
        # nest through the operator algebra as well as the constructor
        op = parts[0]
        for p in parts[1:]:
            op = op + p
        return op if isinstance(op, CompositeOperation) else CompositeOperation([op])
    if k == "Probe":
        val = np.array([d["value"]], dtype=float)

        class Probe(BaseOperation):
            def calculate(self, context):
                return val.copy()

        return Probe()
    mask = np.array(d["mask"], dtype=bool) if "mask" in d else None
    return getattr(oc, k)(d["size"], mask)


def make_context(case):
    from quansino.mc.contexts import DisplacementContext

    g = case["group"]
    cell = np.array(case["cell"]["m"], dtype=float)
    gp = np.array(g["pos"], dtype=float) + np.array(g["origin"])
    other = np.array([[0.3, 0.4, 0.5], [2.0, 2.5, 0.7]])
    atoms = Atoms("H" * (len(gp) + 2), positions=np.vstack([other[:1], gp, other[1:]]), cell=cell, pbc=True)
    m = np.ones(len(atoms))
    m[1:1 + len(gp)] = g["masses"]
    atoms.set_masses(m)
    rng = np.random.Generator(np.random.PCG64(case["seed"]))
    ctx = DisplacementContext(atoms, rng)
    ctx._moving_indices = np.arange(1, 1 + len(gp))
    return ctx, atoms


def flat_sum(d, ctx):
    """Sum of the parts of a composite description, evaluated sequentially on ctx (oracle for composites)."""
    if d["kind"] in ("Composite", "Composite2"):
        tot = 0.0
        for p in d["parts"]:
            tot = tot + flat_sum(p, ctx)
        return tot
    return build_op(d).calculate(ctx)


@st.composite
def draws_case(draw):
    kinds = DISP + DEFS
    op = draw(op_st(kinds))
    case = {"op": op, "cell": draw(cell_st()), "group": draw(group_st(3 if op["kind"] in ("Rotation", "TranslationRotation") else 1)), "seed": draw(st.integers(0, 2 ** 32)), "n": 40}
    # the documented attributes (step_size / max_value / mask) may be re-tuned on a live operation: construct with
    # other values first, then assign the values under test
    if draw(st.booleans()) and "size" in op:
        case["construct_size"] = draw(log10_floats(-3, 1 if op["kind"] in ("Ball", "Sphere", "Box") else 0))
    return case


def check_draw(kind, d, res, ctx, atoms, case):
    """Returns (kind, detail) on a violated predicate."""
    idx = ctx._moving_indices
    if kind in DEFS:
        F = np.asarray(res, dtype=float)
        if F.shape != (3, 3) or not np.all(np.isfinite(F)):
            return ("deformation-shape", f"{kind}: result is not a finite 3x3 matrix")
        mask = np.array(d["mask"], dtype=bool) if "mask" in d else np.ones((3, 3), dtype=bool)
        if not np.array_equal(F[~mask], np.eye(3)[~mask]):
            return ("mask-not-identity", f"{kind}: masked-out components {F[~mask].tolist()} differ from the identity's")
        if "mask" not in d:
            if not np.allclose(F, F.T, rtol=0, atol=1e-12 * np.abs(F).max()):
                return ("not-symmetric", f"{kind}: default-mask gradient is not symmetric")
            if np.linalg.eigvalsh(0.5 * (F + F.T)).min() <= 0:
                return ("not-positive-definite", f"{kind}: default-mask gradient is not positive definite")
            if kind == "ShapeDeformation" and abs(np.linalg.det(F) - 1.0) > 1e-10:
                return ("volume-not-preserved", f"ShapeDeformation: det F = {np.linalg.det(F)!r}")
            if kind == "IsotropicDeformation" and not np.array_equal(F, np.eye(3) * F[0, 0]):
                return ("not-isotropic", f"IsotropicDeformation: F = {F.tolist()}")
        elif kind == "IsotropicDeformation" and mask[0, 0] and mask[1, 1] and mask[2, 2]:
            if not (F[0, 0] == F[1, 1] == F[2, 2]) or np.any(F[~np.eye(3, dtype=bool)] != 0):
                return ("not-isotropic", f"IsotropicDeformation with diagonal kept: F = {F.tolist()}")
        return None
    dv = np.asarray(res, dtype=float)
    if dv.ndim != 2 or dv.shape[1] != 3 or not np.all(np.isfinite(dv)):
        return ("displacement-shape", f"{kind}: result shape {dv.shape}")
    s = d.get("size")
    if kind == "Ball" and np.linalg.norm(dv, axis=1).max() > s * (1 + 1e-12):
        return ("ball-outside", f"Ball({s}): |d| = {np.linalg.norm(dv, axis=1).max()!r}")
    if kind == "Sphere" and np.abs(np.linalg.norm(dv, axis=1) - s).max() > 1e-12 * s:
        return ("sphere-off-surface", f"Sphere({s}): |d| = {np.linalg.norm(dv, axis=1).tolist()}")
    if kind == "Box" and np.abs(dv).max() > s:
        return ("box-outside", f"Box({s}): components {dv.tolist()}")
    pos = atoms.positions[idx]
    if kind == "Translation":
        if dv.shape[0] != 1 and np.abs(dv - dv[0]).max() > 0:
            return ("translation-not-common", "Translation: atoms of the group receive different vectors")
        frac = (pos.mean(axis=0) + dv[0]) @ np.linalg.inv(atoms.cell.array)
        if frac.min() < -1e-12 or frac.max() >= 1 + 1e-12:
            return ("translation-outside-cell", f"Translation: new centroid has fractional coordinates {frac.tolist()}")
    if kind in ("Rotation", "TranslationRotation"):
        new = pos + dv
        d0 = np.linalg.norm(pos[:, None] - pos[None], axis=-1)
        d1 = np.linalg.norm(new[:, None] - new[None], axis=-1)
        if np.abs(d0 - d1).max() > 1e-9:
            return ("not-rigid", f"{kind}: pairwise distances change by {np.abs(d0 - d1).max():.3e}")
        if kind == "Rotation":
            m = atoms.get_masses()[idx]
            c0 = (m[:, None] * pos).sum(0) / m.sum()
            c1 = (m[:, None] * new).sum(0) / m.sum()
            if np.abs(c0 - c1).max() > 1e-9:
                return ("com-moved", f"Rotation: centre of mass moved by {np.abs(c0 - c1).max():.3e}")
    return None


def run_draws(case):
    d = case["op"]
    kind = d["kind"]
    labels = ["draws:" + kind]
    try:
        ctx, atoms = make_context(case)
        if "construct_size" in case:
            op = build_op(dict(d, size=case["construct_size"]))
            if hasattr(op, "step_size"):
                op.step_size = d["size"]
            else:
                op.max_value = d["size"]
            labels.append("retuned-after-construction")
        else:
            op = build_op(d)
        if kind in DEFS and "mask" not in d:
            # another operation of the same family has ITS mask edited in place: this one keeps the default mask
            other = build_op(dict(d, size=0.01))
            if getattr(other, "mask", None) is not None:
                other.mask[2, :] = False
                other.mask[0, 1] = False
                labels.append("sibling-mask-edited-in-place")
        for i in range(case["n"]):
            if kind in ("Rotation", "TranslationRotation") and i == case["n"] // 2:
                # the masses of the group change between two calls of the same operation object (isotope substitution)
                m_new = atoms.get_masses()
                m_new[ctx._moving_indices] = m_new[ctx._moving_indices][::-1] * 1.7 + 0.3
                atoms.set_masses(m_new)
                labels.append("masses-changed-between-calls")
            if kind == "Composite":
                clone = np.random.Generator(np.random.PCG64())
                state0 = ctx.rng.bit_generator.state
                clone.bit_generator.state = state0
                rng_live = ctx.rng
                ctx.rng = clone
                expect = np.array(flat_sum(d, ctx), dtype=float)
                ctx.rng = rng_live
                with warnings.catch_warnings():
                    warnings.simplefilter("ignore")
                    res = np.array(op.calculate(ctx), dtype=float)
                if np.shape(res) != np.shape(expect) or not np.allclose(res, expect, rtol=0, atol=1e-12 * max(1.0, np.abs(expect).max())):
                    return {"labels": labels, "nontrivial": True, "violation": {"kind": "composite-not-sum", "detail": f"composite {d} returned {np.asarray(res).tolist()} but its parts sum to {np.asarray(expect).tolist()}"}}
                # the parts are functions of (context, generator state): evaluating the composite must not change
                # what they return for the same generator state (no result may alias state shared between calls)
                clone.bit_generator.state = state0
                ctx.rng = clone
                again = np.array(flat_sum(d, ctx), dtype=float)
                ctx.rng = rng_live
                if np.shape(again) != np.shape(expect) or not np.array_equal(again, expect):
                    return {"labels": labels, "nontrivial": True, "violation": {"kind": "parts-changed-by-composite-call", "detail": f"composite {d}: the same parts evaluated from the same generator state give {expect.tolist()} before and {again.tolist()} after the composite was evaluated"}}
                if any(p["kind"] in ("Rotation", "TranslationRotation") for p in d["parts"]):
                    labels.append("composite-with-per-atom-part")
                continue
            with warnings.catch_warnings():
                warnings.simplefilter("ignore")
                res = op.calculate(ctx)
            v = check_draw(kind, d, res, ctx, atoms, case)
            if v:
                return {"labels": labels, "nontrivial": True, "violation": {"kind": v[0], "detail": f"draw {i}: {v[1]}"}}
    except Exception as exc:
        return {"labels": labels + ["raised"], "nontrivial": True, "violation": {"kind": f"raises:{kind}:{type(exc).__name__}", "detail": repr(exc)[:300]}}
    mask = "default" if "mask" not in d else "".join("1" if x else "0" for row in d["mask"] for x in row)
    size = round(float(np.log10(d["size"])), 1) if "size" in d else ""
    return {"labels": labels + ["cell:" + case["cell"]["kind"]], "nontrivial": True, "key": f"{kind}|{size}|{mask}|{case['cell']['kind']}|{len(case['group']['pos'])}", "violation": None, "weight": case["n"]}


# ------------------------------------------------------------------ distributional part
@st.composite
def dist_case(draw):
    kind = draw(st.sampled_from(["Ball", "Sphere", "Box", "Rotation", "TranslationRotation", "Translation", "Composite", "IsotropicDeformation", "AnisotropicDeformation", "ShapeDeformation"]))
    d = {"kind": kind}
    if kind in ("Ball", "Sphere", "Box"):
        d["size"] = draw(log10_floats(-2, 0.5))
    elif kind == "Composite":
        d["parts"] = [{"kind": "Ball", "size": draw(log10_floats(-1, 0))}, {"kind": "Box", "size": draw(log10_floats(-1, 0))}]
    elif kind in DEFS:
        d["size"] = draw(st.one_of(log10_floats(-2, 0), log10_floats(-0.7, 0)))
    dirs = [[draw(fl(-1, 1)) for _ in range(6)] for _ in range(3)]
    return {"op": d, "cell": draw(cell_st()), "group": draw(group_st(4 if kind in ("Rotation", "TranslationRotation") else 1)), "seed": draw(st.integers(0, 2 ** 32)), "n": 20000, "dirs": dirs}


def kabsch(p, q, w):
    pc = p - (w[:, None] * p).sum(0) / w.sum()
    qc = q - (w[:, None] * q).sum(0) / w.sum()
    h = (pc * w[:, None]).T @ qc
    u, s, vt = np.linalg.svd(h)
    dd = np.sign(np.linalg.det(vt.T @ u.T))
    return vt.T @ np.diag([1, 1, dd]) @ u.T


def run_dist(case):
    d = case["op"]
    kind = d["kind"]
    labels = ["dist:" + kind]
    n = case["n"]
    ctx, atoms = make_context(case)
    op = build_op(d)
    idx = ctx._moving_indices
    pos = atoms.positions[idx]
    samples = []
    centroids = []
    try:
        with warnings.catch_warnings():
            warnings.simplefilter("ignore")
            for _ in range(n):
                res = np.asarray(op.calculate(ctx), dtype=float)
                if kind in DEFS:
                    w_, v_ = np.linalg.eigh(0.5 * (res + res.T))
                    lg = (v_ * np.log(w_)) @ v_.T
                    samples.append([lg[0, 0], lg[1, 1], lg[2, 2], lg[0, 1], lg[0, 2], lg[1, 2]])
                elif kind in ("Rotation", "TranslationRotation"):
                    rot = kabsch(pos, pos + res, np.ones(len(pos)))
                    samples.append(R.from_matrix(rot).as_rotvec())
                elif kind == "Translation":
                    centroids.append((pos.mean(0) + res[0]) @ np.linalg.inv(atoms.cell.array))
                else:
                    samples.append(res[0])
    except Exception as exc:
        return {"labels": labels + ["raised"], "nontrivial": True, "violation": {"kind": f"raises:{kind}:{type(exc).__name__}", "detail": repr(exc)[:300]}}
    size = round(float(np.log10(d["size"])), 1) if "size" in d else ""
    out = {"labels": labels, "nontrivial": True, "key": f"{kind}|{size}|{case['cell']['kind']}", "violation": None, "weight": n}
    if samples:
        x = np.array(samples)
        dim = x.shape[1]
        dirs = [np.eye(dim)[i] for i in range(min(3, dim))] + [np.array(v[:dim]) for v in case["dirs"]]
        pmin, worst = 1.0, None
        for v in dirs:
            if np.linalg.norm(v) < 1e-6:
                continue
            proj = x @ (v / np.linalg.norm(v))
            half = len(proj) // 2
            # compare one half with the negated other half (independent samples)
            p = stats.ks_2samp(proj[:half], -proj[half:]).pvalue
            if p < pmin:
                pmin, worst = p, v
        out["summary"] = {"min_p_symmetry": float(pmin)}
        if pmin < 1e-7:
            out["violation"] = {"kind": f"asymmetric-proposal:{kind}", "detail": f"{kind}: the proposal and its inverse differ in law: two-sample KS p={pmin:.2e} on projection {np.round(worst, 3).tolist()} (mean {np.round(x.mean(0), 4).tolist()}, n={n})"}
            return out
    if centroids:
        c = np.array(centroids)
        if c.min() < -1e-12 or c.max() >= 1 + 1e-12:
            out["violation"] = {"kind": "translation-outside-cell", "detail": f"{kind}: centroid fractional coordinates outside [0,1): min {c.min()}, max {c.max()}"}
            return out
        if kind == "Translation":
            for ax in range(3):
                p = stats.kstest(c[:, ax], "uniform").pvalue
                if p < 1e-7:
                    out["violation"] = {"kind": "translation-not-uniform", "detail": f"Translation: centroid not uniform along fractional axis {ax} (KS p={p:.2e})"}
                    return out
    return out


PARTS = {"draws": (draws_case, run_draws), "dist": (dist_case, run_dist)}


def plan(tier):
    if tier == "quick":
        return [{"part": "draws", "shards": 6, "budget": {"n_examples": 400}}, {"part": "dist", "shards": 10, "budget": {"n_examples": 4}}]
    return [{"part": "draws", "shards": 6, "budget": {"n_examples": 12000}}, {"part": "dist", "shards": 10, "budget": {"n_examples": 120}}]


def run_part(part, seed, shard, nshards, budget):
    strat, fn = PARTS[part]
    return hyp.search(strat(), fn, budget["n_examples"], seed, part, shrink=(part == "draws"), skip_zero=(part == "dist"))


def replay(part, case):
    return PARTS[part][1](case)
