"""C06 - same seed, same trajectory.

Two-run comparator.  Run A and run B are built from the same case with the same integer seed but with
different states of numpy's legacy global generator and Python's `random` (and with global draws
consumed between the moves of run B); every per-step record (positions, cell, numbers, move_history,
energy) and the log text must be byte-identical.  Run C with another seed must differ.
"""
from __future__ import annotations

import io
import random
import warnings

import numpy as np
from ase import Atoms
from hypothesis import strategies as st

from vlib import hyp, mcmachine as M
from vlib import systems as S
from vlib.calcs import ModelCalc
from vlib.gen import fl, log10_floats

ID = "C06"
LEVEL = "exploration"
TECHNIQUE = "property-based differential testing (Hypothesis): two executions of one generated configuration under different global RNG states compared bitwise; metamorphic relation seed -> trajectory"
RULE = (
    "mc: (ensemble in the five MC drivers, move table from the + / * grammar with shipped criteria, multi-cycle steps, seed from {0,1,small,2^32,2^64+k,...}, "
    "3-12 steps, two global RNG states); fbmc: (ForceBias or AdaptiveForceBias with both schemes and both update functions, calculator, seed, steps). "
    "hashseed: the same generated configurations are run again in a fresh interpreter with another PYTHONHASHSEED and the digests compared. "
    "Non-trivial = the configuration has a stochastic component and run A visits at least two distinct configurations (hashseed: at least two table entries); distinct = (driver, table shape, seed class, steps)."
)
ASSUMPTIONS = [
    "calculators are pure functions of (positions, cell, numbers) with fixed summation order (ASE EMT/LJ depend on neighbour-list history at 1e-15 and would make a bitwise comparison flaky)",
    "table entries in which an exchange move is followed by another label-bearing move are not generated (recorded finding of C03/C05)",
    "'different seeds give different trajectories' is asserted only when run A itself visited at least two configurations",
]
LEVEL_TEXT = (
    "Bounded differential exploration: for each generated configuration the run is a function of (seed, configuration) only; any draw from a global generator, an "
    "unseeded generator or hash-order dependent scheduling shows up as a byte difference between runs A and B under different global RNG states."
)
LEVEL_NOTE = "Trusted: numpy PCG64 determinism; byte comparison of numpy arrays; StringIO log capture."
DESIGN_REF = "DESIGN.md section 3, C06"

SEEDS = st.one_of(
    st.sampled_from([0, 0, 1, 2, 2 ** 31 - 1, 2 ** 32, 2 ** 32 + 1, 2 ** 63, 2 ** 64, 2 ** 64 + 12345, 2 ** 100 + 7]),
    st.integers(0, 1000),
    st.integers(0, 2 ** 64),
)


def seed_class(s):
    if s == 0:
        return "zero"
    if s < 2 ** 32:
        return "small"
    if s < 2 ** 64:
        return "u64"
    return "big"


@st.composite
def mc_case(draw):
    scn = draw(M.scenario(exclude=("multi-exchange",), constraints=True, extra_arrays=True))
    scn["seed"] = draw(SEEDS)
    scn["temperature"] = draw(log10_floats(2.5, 4))
    scn["mu"] = draw(fl(-0.5, 0.5))
    scn["max_cycles"] = draw(st.integers(1, 4))
    scn["n_exchange"] = max(scn.get("n_exchange", 0), 1)
    budget = scn["max_cycles"]
    scn["table"] = []
    for _ in scn["entries"]:
        mn = draw(st.integers(0, min(2, budget)))  # forced slots are scheduled with the simulation's generator too
        budget -= mn
        scn["table"].append([draw(st.integers(1, 3)), draw(fl(0.1, 3.0)), mn])
    scn["table"][0][0] = 1
    scn["calc"] = "fast"
    scn["names"] = list(draw(st.permutations(["zeta", "alpha", "mid", "beta"])))
    for e in scn["entries"]:
        for leaf in S.expr_leaves(e):
            if leaf.get("t") == "hmc":
                leaf["forced"] = draw(st.booleans())  # momenta rescaled to the exact kinetic temperature
    return {"scn": scn, "steps": draw(st.integers(3, 12)), "g1": draw(st.integers(0, 2 ** 32 - 1)), "g2": draw(st.integers(0, 2 ** 32 - 1))}


def _digest(atoms, mc, energy):
    return (atoms.positions.tobytes(), atoms.cell.array.tobytes(), atoms.numbers.tobytes(), repr(list(getattr(mc, "move_history", []))), repr(energy))


def run_mc_once(case, seed, gstate, noise, reuse=False):
    if noise and 0 <= seed < 2 ** 63 and gstate % 2 == 0:
        seed = np.int64(seed)  # the second run gets the same integer as a numpy scalar (seeds drawn from arrays)
    scn = dict(case["scn"], seed=seed)
    np.random.seed(gstate)
    random.seed(gstate)
    log = io.StringIO()
    recs = []
    with warnings.catch_warnings():
        warnings.simplefilter("ignore")
        prebuilt = None
        if reuse:
            # the move objects first serve another simulation (other seed, same configuration), then this one
            mc0, _a0, info0 = M.build_simulation(dict(scn, seed=seed + 977), logfile=None, criteria="real")
            for step in mc0.irun(min(case["steps"], 4)):
                for _ in step:
                    pass
            mc0.close()
            prebuilt = info0["moves"]
        mc, atoms, _ = M.build_simulation(scn, logfile=log, criteria="real", prebuilt_moves=prebuilt)
        for step in mc.irun(case["steps"]):
            for _ in step:
                if noise:
                    np.random.random(3)
                    random.random()
            recs.append(_digest(atoms, mc, mc.context.last_potential_energy))
        recs.append(_digest(atoms, mc, atoms.get_potential_energy()))
        text = log.getvalue()
        mc.close()
    return recs, text


def compare_runs(run, case, seed, labels, key):
    try:
        a, ta = run(case, seed, case["g1"], False)
        for _ in range(3):
            np.random.random()
        b, tb = run(case, seed, case["g2"], True)
    except Exception as exc:
        # a crash here belongs to another property's subject; it is not a reproducibility verdict
        return {"labels": labels + ["raised:" + type(exc).__name__], "nontrivial": False, "violation": None, "discard": True}
    nontrivial = len({r[:3] for r in a}) >= 2
    # 'different seeds differ' is only meaningful when a continuous random quantity entered the trajectory:
    # some record holds an atom position that is not one of the initial positions, or another cell
    # (a run that only deletes the initial particles is the same for every seed)
    rows0 = {tuple(x) for x in np.frombuffer(a[0][0], dtype=float).reshape(-1, 3).tolist()} if a else set()
    # (changes at rounding level - a rotation of a single atom, of coincident atoms - do not count: they carry no seed)
    init_rows = np.array(sorted(rows0), dtype=float).reshape(-1, 3) if rows0 else np.zeros((0, 3))
    cell0 = np.frombuffer(a[0][1], dtype=float) if a else np.zeros(9)

    def really_moved(r):
        if np.abs(np.frombuffer(r[1], dtype=float) - cell0).max() > 1e-9:
            return True
        pos = np.frombuffer(r[0], dtype=float).reshape(-1, 3)
        if len(init_rows) == 0:
            return len(pos) > 0
        dmin = np.abs(pos[:, None, :] - init_rows[None, :, :]).max(axis=2).min(axis=1) if len(pos) else np.zeros(0)
        return bool(len(dmin) and dmin.max() > 1e-9)

    seed_sensitive = any(really_moved(r) for r in a)
    out = {"labels": labels + (["moving"] if nontrivial else ["static"]), "nontrivial": nontrivial, "key": key, "violation": None}
    if len(a) != len(b):
        out["violation"] = {"kind": "same-seed-differs:length", "detail": f"seed {seed}: runs recorded {len(a)} vs {len(b)} steps"}
        return out
    for i, (ra, rb) in enumerate(zip(a, b)):
        if ra != rb:
            what = [n for n, x, y in zip(("positions", "cell", "numbers", "move_history", "energy"), ra, rb) if x != y]
            out["nontrivial"] = True
            out["violation"] = {"kind": "same-seed-differs", "detail": f"seed {seed} ({seed_class(seed)}): two runs with the same seed differ at record {i} in {what} (global RNG states {case['g1']} vs {case['g2']})"}
            return out
    if ta != tb:
        out["violation"] = {"kind": "same-seed-differs:log", "detail": f"seed {seed}: log files differ between two runs with the same seed"}
        return out
    if nontrivial and seed_sensitive:
        try:
            c, _tc = run(case, seed + 1, case["g1"], False)
        except Exception:
            return out
        if c == a:
            out["violation"] = {"kind": "different-seed-same-trajectory", "detail": f"seeds {seed} and {seed + 1} give identical trajectories although the run moves"}
            return out
        # seeds that agree in their low bits are different seeds too
        other = seed + (2 ** 32 if case["g1"] % 2 else 2 ** 64)
        try:
            d, _td = run(case, other, case["g1"], False)
        except Exception:
            return out
        if d == a:
            out["violation"] = {"kind": "different-seed-same-trajectory:high-bits", "detail": f"seeds {seed} and {other} (equal low bits) give identical trajectories"}
    return out


def default_operation_runs(seed, ens):
    """Two identically built simulations whose moves use their DEFAULT operations; between them the first one's
    operations are adapted in place (step-size tuning). Returns the two digests."""
    from ase import Atoms

    from quansino.mc import canonical, isobaric
    from quansino.moves.cell import CellMove
    from quansino.moves.displacement import DisplacementMove, HamiltonianDisplacementMove
    from vlib.calcs import FastCalc

    def once(adapt_after):
        atoms = Atoms("Ar4", positions=[[1, 1, 1], [3, 1.2, 1.1], [1.3, 3.1, 2.9], [3.2, 3.0, 1.0]], cell=[5, 5, 5], pbc=True)
        atoms.calc = FastCalc("pair", {"k": 0.05, "center": (2.5, 2.5, 2.5), "a": 0.4, "s": 1.6})
        with warnings.catch_warnings():
            warnings.simplefilter("ignore")
            if ens == "Canonical":
                mc = canonical.Canonical(atoms, temperature=800.0, max_cycles=2, seed=seed)
                mc.add_move(DisplacementMove(np.arange(4)), name="d")
            elif ens == "HamiltonianCanonical":
                mc = canonical.HamiltonianCanonical(atoms, temperature=800.0, max_cycles=1, seed=seed)
                mc.add_move(HamiltonianDisplacementMove(), name="h")
            else:
                mc = isobaric.Isobaric(atoms, temperature=800.0, pressure=0.01, max_cycles=2, seed=seed)
                mc.add_move(CellMove(), name="c")
                mc.add_move(DisplacementMove(np.arange(4)), name="d")
            recs = []
            for step in mc.irun(5):
                for _ in step:
                    pass
                recs.append((atoms.positions.tobytes(), atoms.cell.array.tobytes()))
            if adapt_after:
                for st_ in mc.moves.values():
                    op = st_.move.operation
                    for attr, f in (("step_size", 3.0), ("max_value", 2.0), ("dt", 0.5)):
                        if hasattr(op, attr):
                            setattr(op, attr, getattr(op, attr) * f)  # in-place tuning of this simulation's own operation
            mc.close()
        return recs

    return once(True), once(False)


def run_mc(case):
    scn = case["scn"]
    from props.c03 import shape

    labels = ["ens:" + scn["ensemble"], "seed:" + seed_class(scn["seed"])]
    key = "|".join([scn["ensemble"], ",".join(shape(e) for e in scn["entries"]), seed_class(scn["seed"]), str(case["steps"]), str(scn["max_cycles"])])
    out = compare_runs(run_mc_once, case, scn["seed"], labels, key)
    leaves = [l for e in scn["entries"] for l in S.expr_leaves(e)]
    if any(l.get("forced") for l in leaves):
        out["labels"] = list(out["labels"]) + ["hmc-forced-temperature"]
    if out.get("violation") is None and not out.get("discard") and case["g1"] % 4 == 0 and scn["ensemble"] in ("Canonical", "HamiltonianCanonical", "Isobaric"):
        try:
            first, second = default_operation_runs(int(scn["seed"]) % (2 ** 32), scn["ensemble"])
        except Exception:
            first = second = None
        if first is not None:
            out["labels"] = list(out["labels"]) + ["default-operations-twice"]
            if first != second:
                out["nontrivial"] = True
                out["violation"] = {"kind": "same-seed-differs:default-operations", "detail": f"seed {scn['seed']} ({scn['ensemble']}): two identically built simulations with default operations differ after the first one's operations were tuned in place"}
                return out
    if out.get("violation") is None and not out.get("discard") and scn["ensemble"] != "GrandCanonical" and "alias_of" not in scn:
        # configuration objects that already served another simulation are still the same configuration
        try:
            a, ta = run_mc_once(case, scn["seed"], case["g1"], False)
            r, tr = run_mc_once(case, scn["seed"], case["g1"], False, reuse=True)
        except Exception:
            return out
        out["labels"] = list(out["labels"]) + ["moves-reused"]
        if a != r or ta != tr:
            i = next((k for k, (x, y) in enumerate(zip(a, r)) if x != y), min(len(a), len(r)))
            out["nontrivial"] = True
            out["violation"] = {"kind": "same-seed-differs:reused-move-objects", "detail": f"seed {scn['seed']}: a simulation whose move objects had served another simulation before differs from one with fresh move objects at record {i}"}
    return out


# ------------------------------------------------------------------ force bias
@st.composite
def fb_case(draw):
    n = draw(st.integers(1, 5))
    return {
        "driver": draw(st.sampled_from(["ForceBias", "AdaptiveForceBias"])),
        "scheme": draw(st.sampled_from(["forces", "energy"])),
        "update": draw(st.sampled_from(["tanh", "exp"])),
        "pos": [[draw(fl(0.5, 5.5)) for _ in range(3)] for _ in range(n)],
        "masses": [draw(fl(1, 100)) for _ in range(n)],
        "calc": draw(st.sampled_from(["harmonic", "pair"])),
        "delta": draw(log10_floats(-2, -0.3)),
        "T": draw(log10_floats(1.5, 3.5)),
        "seed": draw(SEEDS),
        "steps": draw(st.integers(3, 15)),
        "g1": draw(st.integers(0, 2 ** 32 - 1)),
        "g2": draw(st.integers(0, 2 ** 32 - 1)),
    }


def run_fb_once(case, seed, gstate, noise):
    from quansino.mc.fbmc import AdaptiveForceBias, ForceBias

    np.random.seed(gstate)
    random.seed(gstate)
    n = len(case["pos"])
    atoms = Atoms("Cu" * n, positions=case["pos"], cell=[6, 6, 6], pbc=False)
    atoms.set_masses(case["masses"])
    atoms.calc = ModelCalc(case["calc"], {"k": 0.5, "center": (3.0, 3.0, 3.0), "a": 0.4, "s": 1.6},
                           committee=[-0.05, 0.0, 0.07] if case["driver"] == "AdaptiveForceBias" else None)
    log = io.StringIO()
    recs = []
    with warnings.catch_warnings():
        warnings.simplefilter("ignore")
        if case["driver"] == "ForceBias":
            mc = ForceBias(atoms, delta=case["delta"], temperature=case["T"], seed=seed, logfile=log)
        else:
            mc = AdaptiveForceBias(atoms, min_delta=case["delta"] * 0.3, max_delta=case["delta"], temperature=case["T"], scheme=case["scheme"],
                                   update_function=case["update"], seed=seed, logfile=log)
        for _ in mc.irun(case["steps"]):
            if noise:
                np.random.random(2)
                random.random()
            recs.append((atoms.positions.tobytes(), atoms.cell.array.tobytes(), atoms.numbers.tobytes(), "", repr(np.asarray(mc.delta).tolist())))
        recs.append((atoms.positions.tobytes(), atoms.cell.array.tobytes(), atoms.numbers.tobytes(), "", repr(atoms.get_potential_energy())))
        text = log.getvalue()
        mc.close()
    return recs, text


def run_fb(case):
    labels = ["fb:" + case["driver"] + (":" + case["scheme"] + ":" + case["update"] if case["driver"] != "ForceBias" else ""), "seed:" + seed_class(case["seed"])]
    key = "|".join([case["driver"], case["scheme"], case["update"], seed_class(case["seed"]), str(case["steps"]), str(len(case["pos"]))])
    return compare_runs(run_fb_once, case, case["seed"], labels, key)


# ------------------------------------------------------------------ another interpreter, another string-hash seed
CHILD = r"""
import sys, json, hashlib
sys.path.insert(0, sys.argv[2])
import props.c06 as m
out = []
for case in json.load(open(sys.argv[1])):
    out.append(m.digest_of(case))
print("DIGESTS " + json.dumps(out))
"""


def digest_of(case):
    import hashlib

    try:
        recs, text = run_mc_once(case, case["scn"]["seed"], case["g1"], False)
    except Exception as exc:
        return "ERR:" + type(exc).__name__
    h = hashlib.sha256()
    for r in recs:
        for x in r:
            h.update(x if isinstance(x, bytes) else str(x).encode())
    h.update(text.encode())
    return h.hexdigest()


def run_hashseed(seed, budget):
    import json as _json
    import os
    import subprocess
    import sys
    import tempfile

    from vlib.runner import ROOT, empty_result, jsonable

    cases = []

    def collect(case):
        cases.append(jsonable(case))
        return {"labels": ["generated"], "nontrivial": False, "violation": None, "discard": True}

    hyp.search(mc_case(), collect, budget["n_examples"], seed, "hashseed", shrink=False, skip_zero=True)
    res = empty_result()
    here = [digest_of(c) for c in cases]
    fd, path = tempfile.mkstemp(prefix="c06_", suffix=".json")
    os.close(fd)
    try:
        _json.dump(cases, open(path, "w"))
        env = dict(os.environ, PYTHONHASHSEED=str(1 + seed % 4000000000))
        cp = subprocess.run([sys.executable, "-c", CHILD, path, ROOT], env=env, capture_output=True, text=True, timeout=1800)
    finally:
        os.remove(path)
    line = next((l for l in cp.stdout.splitlines() if l.startswith("DIGESTS ")), None)
    if line is None:
        res["notes"].append("hashseed: child interpreter produced no digests: " + cp.stderr[-300:])
        return res
    there = _json.loads(line[8:])
    keys = []
    for c, a, b in zip(cases, here, there):
        res["evaluations"] += 1
        res["classes"]["hashseed:" + c["scn"]["ensemble"]] = res["classes"].get("hashseed:" + c["scn"]["ensemble"], 0) + 1
        if a.startswith("ERR") or b.startswith("ERR"):
            continue
        if len(c["scn"]["entries"]) >= 2:
            keys.append("hashseed|" + a[:12])
        if a != b:
            res["violations"].append({"part": "hashseed", "kind": "same-seed-differs:other-interpreter", "case": c,
                                      "detail": f"seed {c['scn']['seed']}: the same configuration run in a fresh interpreter with another PYTHONHASHSEED gives a different trajectory/log ({c['scn']['ensemble']}, {len(c['scn']['entries'])} table entries)"})
            break
    res["nontrivial_keys"] = keys
    if cases:
        res["samples"].append({"part": "hashseed", "labels": ["hashseed"], "case": {"ensemble": cases[0]["scn"]["ensemble"], "names": cases[0]["scn"].get("names"), "table": cases[0]["scn"].get("table")}})
    return res


def replay_hashseed(case):
    import json as _json
    import os
    import subprocess
    import sys
    import tempfile

    from vlib.runner import ROOT

    a = digest_of(case)
    fd, path = tempfile.mkstemp(prefix="c06_", suffix=".json")
    os.close(fd)
    try:
        _json.dump([case], open(path, "w"))
        cp = subprocess.run([sys.executable, "-c", CHILD, path, ROOT], env=dict(os.environ, PYTHONHASHSEED="4242"), capture_output=True, text=True, timeout=600)
    finally:
        os.remove(path)
    line = next((l for l in cp.stdout.splitlines() if l.startswith("DIGESTS ")), None)
    b = _json.loads(line[8:])[0] if line else "ERR:nochild"
    if a != b and not a.startswith("ERR") and not b.startswith("ERR"):
        return {"violation": {"kind": "same-seed-differs:other-interpreter", "detail": "digest differs in a fresh interpreter with another PYTHONHASHSEED"}}
    return {"violation": None}


PARTS = {"mc": (mc_case, run_mc), "fbmc": (fb_case, run_fb)}


def plan(tier):
    if tier == "quick":
        return [{"part": "mc", "shards": 11, "budget": {"n_examples": 180}}, {"part": "fbmc", "shards": 3, "budget": {"n_examples": 240}}, {"part": "hashseed", "shards": 2, "budget": {"n_examples": 120}}]
    return [{"part": "mc", "shards": 11, "budget": {"n_examples": 4500}}, {"part": "fbmc", "shards": 3, "budget": {"n_examples": 4000}}, {"part": "hashseed", "shards": 2, "budget": {"n_examples": 1500}}]


def run_part(part, seed, shard, nshards, budget):
    if part == "hashseed":
        return run_hashseed(seed, budget)
    strat, fn = PARTS[part]
    return hyp.search(strat(), fn, budget["n_examples"], seed, part)


def replay(part, case):
    if part == "hashseed":
        return replay_hashseed(case)
    return PARTS[part][1](case)
