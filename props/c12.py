"""C12 - constraints on the atoms are respected.

Parts
  mc      : state machine on Canonical / HamiltonianCanonical with FixAtoms or FixCom and tables of
            displacement moves (every operation, composites) and Hamiltonian moves; scripted verdicts.
  fbmc    : ForceBias / AdaptiveForceBias runs with FixAtoms / FixCom under harmonic, pair and
            prescribed-force calculators.
  fixrot  : FixRot.adjust_momenta on generated non-collinear geometries, masses and momenta.
Oracle: fixed atoms bit-equal to their initial positions; centre of mass within 1e-9 of the initial one
over the whole history; zero angular momentum and unchanged linear momentum after FixRot.
"""
from __future__ import annotations

import warnings

import numpy as np
from ase import Atoms
from ase.constraints import FixAtoms, FixCom
from hypothesis import strategies as st

from vlib import hyp, mcmachine as M
from vlib import systems as S
from vlib.calcs import ModelCalc
from vlib.gen import fl, log10_floats

ID = "C12"
LEVEL = "exploration"
TECHNIQUE = "stateful + stateless property-based testing (Hypothesis): generated histories under constraints with before/after position and centre-of-mass invariants; generated geometries for the rotation constraint"
RULE = (
    "mc: scenario (Canonical or HamiltonianCanonical, 3-7 atoms with FixAtoms on a random subset or FixCom, 1-3 entries of displacement leaves with every "
    "operation, composites, Hamiltonian moves) + scripted trials; non-trivial = at least one accepted and one rejected trial that touched a constrained degree "
    "of freedom (a selected particle containing a fixed atom, or any move under FixCom). fbmc: (driver, constraint, calculator, delta, T, steps); non-trivial = "
    "at least 3 steps with non-zero displacement of free atoms. fixrot: generated geometry/masses/momenta with inertia condition number < 1e8; non-trivial = "
    "initial |L| above 1e-6 of sum|r x p|. distinct = structural key of each case."
)
ASSUMPTIONS = [
    "cell moves are outside the statement (scaling the cell legitimately moves fixed atoms' Cartesian positions) and are not generated",
    "centre-of-mass tolerance 1e-9 x cell scale per history of <= 60 steps; FixRot tolerance 1e-11 x cond(inertia) x sum|r x p|",
    "only apply_constraints=True (the default named in the statement) is exercised",
]
LEVEL_TEXT = (
    "Bounded exploration of accept/reject/fail histories and force-bias runs under ASE constraints with invariants on the raw positions, plus a generated "
    "stateless search over molecular geometries for the rotation constraint. Invariants are checked after every rule so drift accumulation is visible."
)
LEVEL_NOTE = "Trusted: ASE FixAtoms/FixCom implementations and Atoms.get_center_of_mass; numpy cross products for the angular momentum oracle."
DESIGN_REF = "DESIGN.md section 3, C12"


# ------------------------------------------------------------------ mc machine
class C12Machine(M.MCMachine):
    PROP = ID

    def on_built(self):
        a = self.scn["atoms"]
        self.kind = a["constraints"][0]["kind"]
        self.labels.add("constraint:" + self.kind)
        self.pos0 = self.atoms.positions.copy()
        self.com0 = self.atoms.get_center_of_mass().copy()
        self.fixed = np.array(a["constraints"][0].get("indices", []), dtype=int)
        self.scale = float(np.max(np.abs(self.atoms.cell.array))) or 1.0
        self.acc_touch = self.rej_touch = 0
        self.verdicts = ""

    def before_move(self, name):
        return {"pos": self.atoms.positions.copy()}

    def after_move(self, pre, name, verdict):
        key = {True: "A", False: "R", None: "F"}.get(verdict, "?")
        self.verdicts += key
        entry = self.entry_expr(name)
        where = f"after a {'accepted' if verdict else 'rejected' if verdict is False else 'failed'} trial of {name} ({shape(entry)}), step {self.n_trials}"
        touched = self.kind == "FixCom"
        if self.kind == "FixAtoms":
            # did the entry possibly select a particle that contains a fixed atom?
            for m in self.elementary(name):
                lab = getattr(m, "labels", None)
                if lab is None:
                    touched = True  # Hamiltonian move acts on all atoms
                elif any(l >= 0 for l in np.asarray(lab)[self.fixed]):
                    touched = True
            if not np.array_equal(self.atoms.positions[self.fixed], self.pos0[self.fixed]):
                moved = [int(i) for i in self.fixed if not np.array_equal(self.atoms.positions[i], self.pos0[i])]
                self.fail(f"fixed-atom-moved:{key}", f"{where}: atoms {moved} fixed by FixAtoms moved by {np.abs(self.atoms.positions[moved] - self.pos0[moved]).max():.3e}")
                return
        else:
            drift = float(np.abs(self.atoms.get_center_of_mass() - self.com0).max())
            if drift > 1e-9 * self.scale:
                self.fail(f"com-drift:{key}", f"{where}: centre of mass drifted by {drift:.3e} under FixCom")
                return
        if touched and verdict is True:
            self.acc_touch += 1
        if touched and verdict is False:
            self.rej_touch += 1
        for l in S.expr_leaves(entry):
            self.labels.add("leaf:" + (l["op"]["o"] if l["t"] == "disp" else l["t"]))

    def is_nontrivial(self):
        return getattr(self, "acc_touch", 0) >= 1 and getattr(self, "rej_touch", 0) >= 1

    def distinct_key(self):
        if self.mc is None:
            return None
        return "|".join([self.scn["ensemble"], self.kind, ",".join(shape(e) for e in self.scn["entries"]), self.verdicts[:6]])


def shape(e):
    from props.c03 import shape as sh

    return sh(e)


@st.composite
def mc_scenario(draw):
    scn = draw(M.scenario(ensembles=["Canonical", "HamiltonianCanonical"], extra_arrays=True, constraints=True, min_atoms=3, max_atoms=7))
    n = len(scn["atoms"]["symbols"])
    if not scn["atoms"]["constraints"]:
        if draw(st.booleans()):
            idx = draw(st.lists(st.integers(0, n - 1), min_size=1, max_size=n - 1, unique=True))
            scn["atoms"]["constraints"] = [{"kind": "FixAtoms", "indices": sorted(idx), "split": draw(st.integers(0, len(idx)))}]
        else:
            scn["atoms"]["constraints"] = [{"kind": "FixCom"}]
    return scn


# ------------------------------------------------------------------ fbmc
@st.composite
def fbmc_case(draw):
    n = draw(st.integers(2, 6))
    case = {
        "driver": draw(st.sampled_from(["ForceBias", "ForceBias", "AdaptiveForceBias"])),
        "n": n,
        "pos": [[draw(fl(0.5, 5.5)) for _ in range(3)] for _ in range(n)],
        "masses": [draw(fl(1, 200)) for _ in range(n)],
        "constraint": draw(st.sampled_from(["FixAtoms", "FixCom"])),  # both together interact inside ASE (FixCom shifts fixed atoms): not generated
        "fixed": draw(st.lists(st.integers(0, n - 1), min_size=1, max_size=n - 1, unique=True)),
        "calc": draw(st.sampled_from(["harmonic", "pair", "constforce"])),
        "forces": [[draw(st.one_of(fl(-5, 5), st.sampled_from([0.0, 1e3, -1e3, 1e-6]))) for _ in range(3)] for _ in range(n)],
        "delta": draw(log10_floats(-2, 0)),
        "T": draw(log10_floats(1, 3.5)),
        "steps": draw(st.integers(3, 40)),
        "seed": draw(st.integers(1, 2 ** 31)),
        "power": draw(st.sampled_from([0.25, 0.0, 0.5, 1.0])),
        # scaling masses different from the atoms' own, set through the public update_masses()
        "custom_masses": draw(st.one_of(st.none(), st.lists(fl(1, 200), min_size=n, max_size=n))),
        # when the constraint is put on the atoms: before the driver exists, after it was built, or while it runs
        "attach": draw(st.sampled_from(["before", "before", "after-construction", "during-irun"])),
    }
    return case


def run_fbmc(case):
    from quansino.mc.fbmc import AdaptiveForceBias, ForceBias

    n = case["n"]
    atoms = Atoms("Cu" * n, positions=case["pos"], cell=[6, 6, 6], pbc=False)
    atoms.set_masses(case["masses"])
    cons = []
    fixed = np.array(sorted(case["fixed"]), dtype=int)
    if case["constraint"] in ("FixAtoms", "both"):
        cons.append(FixAtoms(indices=fixed.tolist()))
    if case["constraint"] in ("FixCom", "both"):
        cons.append(FixCom())
    attach = case.get("attach", "before")
    if attach == "before":
        atoms.set_constraint(cons)
    params = {"k": 0.5, "center": (3.0, 3.0, 3.0), "a": 0.4, "s": 1.6, "forces": case["forces"]}
    atoms.calc = ModelCalc(case["calc"], params, committee=[-0.05, 0.0, 0.07] if case["driver"] == "AdaptiveForceBias" else None)
    labels = ["fbmc:" + case["driver"], "constraint:" + case["constraint"], "calc:" + case["calc"], "attached:" + attach]
    pos0 = atoms.positions.copy()
    com0 = atoms.get_center_of_mass().copy()
    moved_steps = 0
    try:
        with warnings.catch_warnings():
            warnings.simplefilter("ignore")
            if case["driver"] == "ForceBias":
                mc = ForceBias(atoms, delta=case["delta"], temperature=case["T"], seed=case["seed"])
            else:
                mc = AdaptiveForceBias(atoms, min_delta=case["delta"] * 0.5, max_delta=case["delta"], temperature=case["T"], seed=case["seed"])
            mc.masses_scaling_power = case["power"]
            if case.get("custom_masses"):
                mc.update_masses(np.array(case["custom_masses"], dtype=float))
                labels.append("custom-scaling-masses")
            if attach == "after-construction":
                atoms.set_constraint(cons)
            attached = attach != "during-irun"
            for _ in mc.irun(case["steps"]):
                if not attached:
                    # from here on the constraint is in force: the reference is the state at this moment
                    atoms.set_constraint(cons)
                    attached = True
                    pos0 = atoms.positions.copy()
                    com0 = atoms.get_center_of_mass().copy()
                    continue
                prev = atoms.positions.copy()
                # the step has not run yet at the yield of irun; check the state left by the previous one
                if case["constraint"] in ("FixAtoms", "both") and not np.array_equal(prev[fixed], pos0[fixed]):
                    d = float(np.abs(prev[fixed] - pos0[fixed]).max())
                    return {"labels": labels, "nontrivial": True, "violation": {"kind": "fbmc:fixed-atom-moved", "detail": f"{case['driver']} step {mc.step_count}: FixAtoms atoms moved by {d:.3e}"}}
                if case["constraint"] in ("FixCom",):
                    d = float(np.abs(atoms.get_center_of_mass() - com0).max())
                    if d > 1e-9 * 6.0:
                        return {"labels": labels, "nontrivial": True, "violation": {"kind": "fbmc:com-drift", "detail": f"{case['driver']} step {mc.step_count}: centre of mass drifted by {d:.3e} under FixCom"}}
            mc.close()
    except Exception as exc:
        return {"labels": labels + ["raised"], "nontrivial": True, "violation": {"kind": f"fbmc:raises:{type(exc).__name__}", "detail": repr(exc)}}
    # final state
    if case["constraint"] in ("FixAtoms", "both") and not np.array_equal(atoms.positions[fixed], pos0[fixed]):
        d = float(np.abs(atoms.positions[fixed] - pos0[fixed]).max())
        return {"labels": labels, "nontrivial": True, "violation": {"kind": "fbmc:fixed-atom-moved", "detail": f"{case['driver']} after {case['steps']} steps: FixAtoms atoms moved by {d:.3e}"}}
    if case["constraint"] == "FixCom":
        d = float(np.abs(atoms.get_center_of_mass() - com0).max())
        if d > 1e-9 * 6.0:
            return {"labels": labels, "nontrivial": True, "violation": {"kind": "fbmc:com-drift", "detail": f"{case['driver']} after {case['steps']} steps: centre of mass drifted by {d:.3e}"}}
    free = np.setdiff1d(np.arange(n), fixed) if case["constraint"] != "FixCom" else np.arange(n)
    moved = bool(len(free)) and float(np.abs(atoms.positions[free] - pos0[free]).max()) > 1e-6
    return {"labels": labels, "nontrivial": moved, "key": f"{case['driver']}|{case['constraint']}|{case['calc']}|{n}|{case['steps']}|{round(case['delta'], 2)}", "violation": None}


# ------------------------------------------------------------------ fixrot
@st.composite
def fixrot_case(draw):
    n = draw(st.integers(3, 8))
    a = draw(fl(0.5, 3.0))
    b = draw(fl(-3.0, 3.0))
    c = draw(fl(0.5, 3.0)) * draw(st.sampled_from([-1, 1]))
    # nearly linear (but never collinear) molecules: all off-axis coordinates shrunk by a common factor
    flat = draw(st.sampled_from([1.0, 1.0, 1.0, 0.1, 0.03, 0.01, 0.003]))
    base = [[0.0, 0.0, 0.0], [a, 0.0, 0.0], [b, c * flat, 0.0]]
    rest = [[draw(fl(-3, 3)), draw(fl(-3, 3)) * flat, draw(fl(-3, 3)) * flat] for _ in range(n - 3)]
    rot = [draw(fl(0, 6.28)) for _ in range(3)]
    shift = [draw(fl(-5, 5)) for _ in range(3)]
    return {
        "pos": base + rest, "rot": rot, "shift": shift,
        "masses": [draw(st.one_of(fl(1, 200), st.sampled_from([1.0, 200.0]))) for _ in range(n)],
        "momenta": [[draw(st.one_of(fl(-10, 10), st.just(0.0))) for _ in range(3)] for _ in range(n)],
        "via": draw(st.sampled_from(["direct", "set_momenta"])),
        # the same constraint object was used before on another geometry / other masses of the same Atoms object
        # (positions then replaced the ways users and quansino's own restore paths do it)
        "prior": draw(st.sampled_from([None, None, "assign", "inplace", "set_positions", "set_positions_unconstrained", "translate_rotate"])),
        "prior_pos": [[draw(fl(-3, 3)) for _ in range(3)] for _ in range(n)],
        "prior_masses": draw(st.one_of(st.none(), st.lists(fl(1, 200), min_size=n, max_size=n))),
    }


def _rotm(r):
    cx, sx, cy, sy, cz, sz = np.cos(r[0]), np.sin(r[0]), np.cos(r[1]), np.sin(r[1]), np.cos(r[2]), np.sin(r[2])
    rx = np.array([[1, 0, 0], [0, cx, -sx], [0, sx, cx]])
    ry = np.array([[cy, 0, sy], [0, 1, 0], [-sy, 0, cy]])
    rz = np.array([[cz, -sz, 0], [sz, cz, 0], [0, 0, 1]])
    return rz @ ry @ rx


def run_fixrot(case):
    from quansino.constraints import FixRot

    pos = np.array(case["pos"], dtype=float) @ _rotm(case["rot"]).T + np.array(case["shift"])
    m = np.array(case["masses"], dtype=float)
    p = np.array(case["momenta"], dtype=float)
    n = len(m)
    prior = case.get("prior")
    fixrot = FixRot()
    if prior:
        if prior == "translate_rotate":
            start = (pos - np.array(case["shift"])) @ _rotm([0.3, -1.1, 2.0]) + 1.5
        else:
            start = np.array(case["prior_pos"], dtype=float)
        atoms = Atoms("H" * n, positions=start)
        atoms.set_masses(case.get("prior_masses") or m)
        try:
            if case["via"] == "direct":
                fixrot.adjust_momenta(atoms, p.copy())
            else:
                atoms.set_constraint(fixrot)
                atoms.set_momenta(p.copy())
        except Exception:
            pass  # a degenerate earlier geometry is not what is judged
        if prior in ("assign", "translate_rotate"):
            atoms.positions = pos.copy()
        elif prior == "inplace":
            atoms.positions[:] = pos
        elif prior == "set_positions":
            atoms.set_positions(pos.copy())
        else:
            atoms.set_positions(pos.copy(), apply_constraint=False)
        atoms.set_masses(m)
    else:
        atoms = Atoms("H" * n, positions=pos)
        atoms.set_masses(m)
    com = (m[:, None] * pos).sum(0) / m.sum()
    r = pos - com
    inertia = np.zeros((3, 3))
    for i in range(n):
        inertia += m[i] * (np.dot(r[i], r[i]) * np.eye(3) - np.outer(r[i], r[i]))
    ev = np.linalg.eigvalsh(inertia)
    cond = ev[-1] / ev[0] if ev[0] > 0 else np.inf
    labels = ["fixrot:" + case["via"]] + (["fixrot:reused-after-" + prior] if prior else [])
    if not cond < 1e8:
        return {"labels": labels + ["degenerate"], "nontrivial": False, "violation": None}
    l_scale = float(np.sum(np.linalg.norm(np.cross(r, p), axis=1)))
    l0 = np.cross(r, p).sum(0)
    p_tot0 = p.sum(0)
    try:
        if case["via"] == "direct":
            out = p.copy()
            fixrot.adjust_momenta(atoms, out)
        else:
            atoms.set_constraint(fixrot)
            atoms.set_momenta(p.copy())
            out = atoms.get_momenta()
    except Exception as exc:
        return {"labels": labels + ["raised"], "nontrivial": True, "violation": {"kind": f"fixrot:raises:{type(exc).__name__}", "detail": repr(exc)}}
    l1 = np.cross(r, out).sum(0)
    p_tot1 = out.sum(0)
    tol_l = 1e-11 * cond * max(l_scale, 1e-30) + 1e-300
    nontrivial = np.linalg.norm(l0) > 1e-6 * max(l_scale, 1e-30)
    res = {"labels": labels + (["L0>0"] if nontrivial else ["L0~0"]), "nontrivial": bool(nontrivial),
           "key": f"{n}|{case['via']}|{prior}|{round(float(np.log10(cond)), 1)}|{round(float(np.linalg.norm(l0)), 2)}", "violation": None}
    if not np.all(np.isfinite(out)):
        res["violation"] = {"kind": "fixrot:non-finite", "detail": "adjusted momenta contain NaN/inf"}
    elif np.linalg.norm(l1) > tol_l:
        res["violation"] = {"kind": "fixrot:angular-momentum", "detail": f"|L| after adjust_momenta = {np.linalg.norm(l1):.3e} (before {np.linalg.norm(l0):.3e}, sum|r x p|={l_scale:.3e}, cond(I)={cond:.2e}, tol={tol_l:.2e})"}
    elif np.abs(p_tot1 - p_tot0).max() > 1e-12 * max(1.0, float(np.abs(p).sum())) * max(1.0, 1e-2 * cond):  # the correction omega x r grows with 1/I_min
        res["violation"] = {"kind": "fixrot:linear-momentum", "detail": f"total linear momentum changed by {np.abs(p_tot1 - p_tot0).max():.3e}"}
    return res


# ------------------------------------------------------------------ plumbing
def plan(tier):
    if tier == "quick":
        return [
            {"part": "mc", "shards": 8, "budget": {"n_examples": 150, "steps": 25}},
            {"part": "fbmc", "shards": 4, "budget": {"n_examples": 500}},
            {"part": "fixrot", "shards": 4, "budget": {"n_examples": 1500}},
        ]
    return [
        {"part": "mc", "shards": 8, "budget": {"n_examples": 2500, "steps": 60}},
        {"part": "fbmc", "shards": 4, "budget": {"n_examples": 3000}},
        {"part": "fixrot", "shards": 4, "budget": {"n_examples": 40000}},
    ]


def run_part(part, seed, shard, nshards, budget):
    if part == "mc":
        return hyp.run_machine(lambda sink: M.specialise(C12Machine, sink, mc_scenario()), budget["n_examples"], budget["steps"], seed, part)
    if part == "fbmc":
        return hyp.search(fbmc_case(), run_fbmc, budget["n_examples"], seed, part)
    return hyp.search(fixrot_case(), run_fixrot, budget["n_examples"], seed, part)


def replay(part, case):
    if part == "mc":
        return M.replay_log(C12Machine, case)
    return {"fbmc": run_fbmc, "fixrot": run_fixrot}[part](case)
