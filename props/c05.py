"""C05 - grand-canonical bookkeeping tracks the real system.

State machine on GrandCanonical: accepted/rejected/failed insertions, deletions and displacements
over tables with several label-bearing moves (each with its own labelling), composites built with
+ and *, one move object under two names, `default_label` in {None, -1, 0, 3}.  Oracle: a plain
model keyed by a private per-atom identity array the harness attaches (0 = atom inserted in this
trial), which tells survivors from new and removed atoms independently of quansino's bookkeeping.
"""
from __future__ import annotations

import numpy as np

from vlib import hyp, mcmachine as M
from vlib import systems as S

ID = "C05"
LEVEL = "exploration"
TECHNIQUE = "stateful property-based testing (Hypothesis RuleBasedStateMachine) against a reference model of particles keyed by a harness-owned atom identity array"
RULE = (
    "Each example = GrandCanonical scenario (2-7 atoms, atomic or molecular exchange species, 1-3 entries from exchange/displacement leaves "
    "with + and *, optional alias of one move object under a second name, default_label drawn from {unset, None, -1, 0, 3}, arbitrary initial labels) "
    "+ up to N scripted trials. Non-trivial = at least two accepted exchanges and one rejected or failed exchange trial; "
    "distinct = distinct (table shape, species size, default labels, alias, verdict string prefix). "
    "preselected: (initial labels, template of k atoms, one particle of j atoms handed over through to_add_atoms, verdict list, default_label, "
    "placement operation); non-trivial = j != k with an accepted and a rejected insertion."
)
ASSUMPTIONS = [
    "atoms inserted in one trial arrive in blocks of len(template) in insertion order (ASE Atoms.extend appends)",
    "table entries in which an exchange move is followed by another label-bearing move are excluded while the finding composite-multi-exchange is recorded (counted in excluded_known)",
    "the harness attaches an int array 'vid' to the atoms; quansino treats it like any other per-atom array",
]
LEVEL_TEXT = (
    "Bounded exploration of exchange/displacement histories with a reference model that does not use quansino's indices: every atom carries a "
    "harness identity, so label alignment, label sharing/distinctness, default labels, survivors' labels and the particle counter are decided "
    "after every trial for every label-bearing (sub)move."
)
LEVEL_NOTE = "Trusted: ASE Atoms.extend/del semantics for custom arrays; the scripted criteria; Hypothesis."
DESIGN_REF = "DESIGN.md section 3, C05"


class C05Machine(M.MCMachine):
    PROP = ID

    def on_built(self):
        n = len(self.atoms)
        self.atoms.set_array("vid", np.arange(1, n + 1, dtype=np.int64))
        self.next_id = n + 1
        # the user's template object as it was BEFORE the driver was constructed
        self.template = self.info["template"]
        self.template_snap, self.template_pos = self.info["template_before"]
        self.n_model = int(self.mc.number_of_exchange_particles)
        self.accepted_exchanges = 0
        self.refused_exchanges = 0
        self.verdicts = ""
        k = len(self.mc.exchange_atoms)
        self.labels.add("species:molecular" if k > 1 else "species:atomic")
        if "alias_of" in self.scn:
            self.labels.add("alias-entry")
        if self.scn.get("share_disp"):
            ids = [id(m) for nm in self.entry_names() for m in self.elementary(nm)]
            if len(ids) != len(set(ids)):
                self.labels.add("object-shared-across-entries")
        for e in self.scn["entries"]:
            if e["t"] in ("add", "mul"):
                self.labels.add("composite-entry")
            for l in S.expr_leaves(e):
                dl = l.get("default_label", "unset")
                if dl != "unset":
                    self.labels.add(f"default_label:{dl}")
        if S.diff_snapshots(self.template_snap, S.snapshot_atoms(self.template)) or self.template.positions.tobytes() != self.template_pos:
            self.fail("template-modified:construction", "constructing the GrandCanonical driver modified the user's exchange template")

    def label_moves(self):
        out, seen = [], set()
        for name in self.entry_names():
            for m in self.elementary(name):
                if hasattr(m, "labels") and id(m) not in seen:
                    seen.add(id(m))
                    out.append((name, m))
        return out

    def before_move(self, name):
        ids = self.atoms.arrays["vid"].copy()
        maps = []
        for nm, m in self.label_moves():
            lab = np.asarray(m.labels)
            maps.append(dict(zip(ids.tolist(), lab.tolist())) if len(lab) == len(ids) else None)
        return {"ids": ids, "maps": maps}

    def after_move(self, pre, name, verdict):
        key = {True: "A", False: "R", None: "F"}.get(verdict, "?")
        self.verdicts += key
        entry = self.entry_expr(name)
        has_exch = any(l["t"] == "exch" for l in S.expr_leaves(entry))
        atoms = self.atoms
        ids = atoms.arrays["vid"]
        new_pos = np.flatnonzero(ids == 0)
        removed = sorted(set(pre["ids"].tolist()) - set(ids.tolist()))
        k = len(self.mc.exchange_atoms)
        where = f"after a {'accepted' if verdict else 'rejected' if verdict is False else 'failed'} trial of {name} ({M_shape(entry)})"
        if verdict is not True and (len(new_pos) or removed):
            self.fail("atoms-changed-without-acceptance", f"{where}: {len(new_pos)} new atoms, removed ids {removed}")
            return
        n_ins = n_del = 0
        if verdict is True:
            if len(new_pos) % k:
                self.fail("partial-particle", f"{where}: {len(new_pos)} new atoms is not a multiple of the species size {k}")
                return
            n_ins = len(new_pos) // k
            if removed:
                # particles deleted = distinct labels (of the deleting exchange move) among the removed atoms
                exm = [i for i, (nm, m) in enumerate(self.label_moves()) if hasattr(m, "to_delete_label") and m in self.elementary(name)]
                mp = pre["maps"][exm[0]] if exm and pre["maps"][exm[0]] else None
                n_del = len({mp[i] for i in removed}) if mp else 1
            if has_exch and (n_ins or n_del):
                self.accepted_exchanges += 1
                self.labels.add("accepted:insertion" if n_ins else "accepted:deletion")
            self.n_model += n_ins - n_del
        elif has_exch:
            self.refused_exchanges += 1
        # --- per label-bearing move invariants
        for (nm, m), mp in zip(self.label_moves(), pre["maps"]):
            lab = np.asarray(m.labels)
            tag = f"{type(m).__name__} of {nm}"
            if len(lab) != len(atoms):
                self.fail("labels-misaligned", f"{where}: len(labels)={len(lab)} of {tag} but len(atoms)={len(atoms)}")
                return
            if mp is None:
                continue
            for pos, i in enumerate(ids.tolist()):
                if i != 0 and mp.get(i) != int(lab[pos]):
                    self.fail("survivor-label-changed", f"{where}: {tag}: label of surviving atom id {i} changed {mp.get(i)} -> {int(lab[pos])}")
                    return
            if n_ins:
                old_labels = {v for i, v in mp.items() if i not in removed and v >= 0}
                dl = getattr(m, "default_label", None)
                chunk_labels = []
                for c in range(n_ins):
                    ch = lab[new_pos[c * k:(c + 1) * k]]
                    if len(set(ch.tolist())) != 1:
                        self.fail("particle-split-labels", f"{where}: {tag}: atoms of one inserted particle carry labels {ch.tolist()}")
                        return
                    chunk_labels.append(int(ch[0]))
                if dl is not None:
                    if any(cl != dl for cl in chunk_labels):
                        self.fail(f"default-label-ignored:{dl}", f"{where}: {tag}: default_label={dl!r} configured but new atoms got labels {chunk_labels}")
                        return
                else:
                    if len(set(chunk_labels)) != len(chunk_labels):
                        self.fail("shared-label", f"{where}: {tag}: {n_ins} particles inserted in one trial share labels {chunk_labels}")
                        return
                    for cl in chunk_labels:
                        if cl < 0 or cl in old_labels:
                            self.fail("label-not-distinct", f"{where}: {tag}: new particle got label {cl}, existing particle labels {sorted(old_labels)}")
                            return
        if int(self.mc.number_of_exchange_particles) != self.n_model:
            self.fail("particle-counter", f"{where}: number_of_exchange_particles={self.mc.number_of_exchange_particles} but initial + accepted insertions - accepted deletions = {self.n_model}")
            return
        tpl = self.template
        if S.diff_snapshots(self.template_snap, S.snapshot_atoms(tpl)) or tpl.positions.tobytes() != self.template_pos:
            self.fail("template-modified", f"{where}: the user's exchange template changed: {S.diff_snapshots(self.template_snap, S.snapshot_atoms(tpl))}")
            return
        # give the new atoms their identities
        for p in new_pos:
            ids[p] = self.next_id
            self.next_id += 1


    def is_nontrivial(self):
        return getattr(self, "accepted_exchanges", 0) >= 2 and getattr(self, "refused_exchanges", 0) >= 1

    def distinct_key(self):
        if self.mc is None:
            return None
        dls = sorted({str(l.get("default_label", "unset")) for e in self.scn["entries"] for l in S.expr_leaves(e)})
        return "|".join([",".join(M_shape(e) for e in self.scn["entries"]), str(len(self.mc.exchange_atoms)), ",".join(dls), str(self.scn.get("alias_of")), self.verdicts[:8]])


def M_shape(e):
    from props.c03 import shape

    return shape(e)


def scenario_strategy(known_active):
    exclude = set()
    if "composite-multi-exchange" in known_active:
        exclude.add("multi-exchange")
    return M.scenario(ensembles=["GrandCanonical"], exclude=tuple(exclude), default_labels=True, alias=True, extra_arrays=False, constraints=False)


def _scn(case):
    return case["log"][0]["args"]["scn"] if case.get("log") else {}


KNOWN = {
    "composite-multi-exchange": {
        "text": "composite entry in which an exchange move is followed by another label-bearing move (exch+disp, exch+exch, exch*k): particles inserted together share one label, "
                "later sub-moves use stale labels, deletions overlap (labels/counter no longer track the atoms)",
        "match": lambda part, kind, case: any(M.exchange_then_labelled(e) for e in _scn(case).get("entries", [])),
    },
}


# ------------------------------------------------------------------ pre-selected particle of another size
# The machine's model counts inserted particles in units of the exchange template.  The documented hook
# `to_add_atoms` lets the user insert one particle of any atom count: a small separate part covers that.
from hypothesis import strategies as st  # noqa: E402


@st.composite
def presel_case(draw):
    n = draw(st.integers(0, 4))
    return {"n": n, "labels": [draw(st.integers(-1, 3)) for _ in range(n)], "tpl": draw(st.integers(1, 3)), "add": draw(st.integers(1, 4)),
            "verdicts": draw(st.lists(st.booleans(), min_size=1, max_size=5)), "default_label": draw(st.sampled_from(["unset", None, -1, 0, 3])),
            "op": draw(st.sampled_from([None, "Translation", "TranslationRotation"])), "seed": draw(st.integers(0, 2 ** 32))}


def run_presel(case):
    import warnings

    from ase import Atoms

    from quansino.mc.gcmc import GrandCanonical
    from quansino.moves.exchange import ExchangeMove
    from quansino.operations import displacement as od
    from vlib.calcs import FastCalc

    n, k, j = case["n"], case["tpl"], case["add"]
    labels = ["presel", f"template:{k}", f"added:{j}"]
    out = {"labels": labels, "nontrivial": j != k and True in case["verdicts"] and False in case["verdicts"],
           "key": f"{n}|{k}|{j}|{case['verdicts']}|{case['default_label']}|{case['op']}", "violation": None}
    atoms = Atoms("Ar" * n, positions=[[1.0 + 1.7 * i, 1.0, 1.0 + 0.3 * i] for i in range(n)], cell=[9, 9, 9], pbc=True)
    atoms.calc = FastCalc("ideal", {})
    tpl = Atoms("Ne" * k, positions=[[0, 0, 1.1 * i] for i in range(k)])
    try:
        with warnings.catch_warnings():
            warnings.simplefilter("ignore")
            mc = GrandCanonical(atoms, exchange_atoms=tpl, temperature=300.0, chemical_potential=0.0,
                                number_of_exchange_particles=len({l for l in case["labels"] if l >= 0}), max_cycles=1, seed=case["seed"])
            mv = ExchangeMove(np.array(case["labels"], dtype=int), getattr(od, case["op"])() if case["op"] else None, bias_towards_insert=1.0)
            if case["default_label"] != "unset":
                mv.default_label = case["default_label"]
            crit = M.ScriptedCriteria()
            mc.add_move(mv, criteria=crit, name="x")
            count = mc.number_of_exchange_particles
            for t, verdict in enumerate(case["verdicts"]):
                before = atoms.copy()
                lab_before = np.array(mv.labels).copy()
                mv.to_add_atoms = Atoms("He" * j, positions=[[0.4 * i, 0.2 * i, 0.9 * i] for i in range(j)])
                crit.queue = [verdict]
                for step in mc.irun(1):
                    for _ in step:
                        pass
                got = mc.move_history[-1][1]
                where = f"trial {t} (insertion of a pre-selected {j}-atom particle, template has {k} atoms, verdict {verdict})"
                if got is not verdict and got != verdict:
                    out["violation"] = {"kind": "presel:verdict", "detail": f"{where}: history {got!r}"}
                    return out
                if len(mv.labels) != len(atoms):
                    out["violation"] = {"kind": "presel:labels-misaligned", "detail": f"{where}: {len(mv.labels)} labels for {len(atoms)} atoms"}
                    return out
                if verdict:
                    if len(atoms) != len(before) + j or not np.array_equal(atoms.numbers[: len(before)], before.numbers):
                        out["violation"] = {"kind": "presel:atoms", "detail": f"{where}: {len(before)} -> {len(atoms)} atoms"}
                        return out
                    new = np.array(mv.labels)[len(before):]
                    old = np.array(mv.labels)[: len(before)]
                    if not np.array_equal(old, lab_before):
                        out["violation"] = {"kind": "presel:survivor-label-changed", "detail": f"{where}: labels of the existing atoms {lab_before.tolist()} -> {old.tolist()}"}
                        return out
                    if len(set(new.tolist())) != 1:
                        out["violation"] = {"kind": "presel:particle-labels", "detail": f"{where}: the atoms of the inserted particle carry labels {new.tolist()}"}
                        return out
                    dl = case["default_label"]
                    if dl not in ("unset", None):
                        if int(new[0]) != dl:
                            out["violation"] = {"kind": "presel:default-label", "detail": f"{where}: configured label {dl}, inserted atoms got {new.tolist()}"}
                            return out
                    elif int(new[0]) < 0 or int(new[0]) in set(lab_before.tolist()):
                        out["violation"] = {"kind": "presel:label-not-fresh", "detail": f"{where}: inserted particle got label {int(new[0])}, existing labels {lab_before.tolist()}"}
                        return out
                    count += 1
                else:
                    if len(atoms) != len(before) or not np.array_equal(atoms.positions, before.positions) or not np.array_equal(atoms.numbers, before.numbers) \
                            or not np.array_equal(np.array(mv.labels), lab_before):
                        out["violation"] = {"kind": "presel:rejected-not-restored", "detail": f"{where}: atoms or labels differ after the rejected insertion ({len(before)} -> {len(atoms)} atoms)"}
                        return out
                if mc.number_of_exchange_particles != count:
                    out["violation"] = {"kind": "presel:particle-count", "detail": f"{where}: number_of_exchange_particles={mc.number_of_exchange_particles}, expected {count}"}
                    return out
    except Exception as exc:
        out["violation"] = {"kind": f"presel:raises:{type(exc).__name__}", "detail": f"{case}: {exc!r}"[:400]}
        out["nontrivial"] = True
    return out


def plan(tier):
    if tier == "quick":
        return [{"part": "machine", "shards": 14, "budget": {"n_examples": 250, "steps": 25}}, {"part": "preselected", "shards": 2, "budget": {"n_examples": 400}}]
    return [{"part": "machine", "shards": 14, "budget": {"n_examples": 2500, "steps": 50}}, {"part": "preselected", "shards": 2, "budget": {"n_examples": 8000}}]


def run_part(part, seed, shard, nshards, budget):
    if part == "preselected":
        return hyp.search(presel_case(), run_presel, budget["n_examples"], seed, part)
    strat = scenario_strategy(set(budget.get("known_active", [])))
    return hyp.run_machine(lambda sink: M.specialise(C05Machine, sink, strat), budget["n_examples"], budget["steps"], seed, part)


def replay(part, case):
    if part == "preselected":
        return run_presel(case)
    return M.replay_log(C05Machine, case)
