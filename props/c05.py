"""C05 - grand-canonical bookkeeping tracks the real system.

State machine on GrandCanonical: accepted/rejected/failed insertions, deletions and displacements
over tables with several label-bearing moves (each with its own labelling), composites built with
+ and *, one move object under two names, `default_label` in {None, -1, 0, 3}.  Oracle: a plain
model keyed by a private per-atom identity array the harness attaches (0 = atom inserted in this
trial), which tells survivors from new and removed atoms independently of quansino's bookkeeping.
"""
from __future__ import annotations

import numpy as np

from vlib import hyp, mcmachine as M
from vlib import systems as S

ID = "C05"
LEVEL = "exploration"
TECHNIQUE = "stateful property-based testing (Hypothesis RuleBasedStateMachine) against a reference model of particles keyed by a harness-owned atom identity array"
RULE = (
    "Each example = GrandCanonical scenario (2-7 atoms, atomic or molecular exchange species, 1-3 entries from exchange/displacement leaves "
    "with + and *, optional alias of one move object under a second name, default_label drawn from {unset, None, -1, 0, 3}, arbitrary initial labels) "
    "+ up to N scripted trials. Non-trivial = at least two accepted exchanges and one rejected or failed exchange trial; "
    "distinct = distinct (table shape, species size, default labels, alias, verdict string prefix)."
)
ASSUMPTIONS = [
    "atoms inserted in one trial arrive in blocks of len(template) in insertion order (ASE Atoms.extend appends)",
    "table entries in which an exchange move is followed by another label-bearing move are excluded while the finding composite-multi-exchange is recorded (counted in excluded_known)",
    "the harness attaches an int array 'vid' to the atoms; quansino treats it like any other per-atom array",
]
LEVEL_TEXT = (
    "Bounded exploration of exchange/displacement histories with a reference model that does not use quansino's indices: every atom carries a "
    "harness identity, so label alignment, label sharing/distinctness, default labels, survivors' labels and the particle counter are decided "
    "after every trial for every label-bearing (sub)move."
)
LEVEL_NOTE = "Trusted: ASE Atoms.extend/del semantics for custom arrays; the scripted criteria; Hypothesis."
DESIGN_REF = "DESIGN.md section 3, C05"


class C05Machine(M.MCMachine):
    PROP = ID

    def on_built(self):
        n = len(self.atoms)
        self.atoms.set_array("vid", np.arange(1, n + 1, dtype=np.int64))
        self.next_id = n + 1
        # the user's template object as it was BEFORE the driver was constructed
        self.template = self.info["template"]
        self.template_snap, self.template_pos = self.info["template_before"]
        self.n_model = int(self.mc.number_of_exchange_particles)
        self.accepted_exchanges = 0
        self.refused_exchanges = 0
        self.verdicts = ""
        k = len(self.mc.exchange_atoms)
        self.labels.add("species:molecular" if k > 1 else "species:atomic")
        if "alias_of" in self.scn:
            self.labels.add("alias-entry")
        if self.scn.get("share_disp"):
            ids = [id(m) for nm in self.entry_names() for m in self.elementary(nm)]
            if len(ids) != len(set(ids)):
                self.labels.add("object-shared-across-entries")
        for e in self.scn["entries"]:
            if e["t"] in ("add", "mul"):
                self.labels.add("composite-entry")
            for l in S.expr_leaves(e):
                dl = l.get("default_label", "unset")
                if dl != "unset":
                    self.labels.add(f"default_label:{dl}")
        if S.diff_snapshots(self.template_snap, S.snapshot_atoms(self.template)) or self.template.positions.tobytes() != self.template_pos:
            self.fail("template-modified:construction", "constructing the GrandCanonical driver modified the user's exchange template")

    def label_moves(self):
        out, seen = [], set()
        for name in self.entry_names():
            for m in self.elementary(name):
                if hasattr(m, "labels") and id(m) not in seen:
                    seen.add(id(m))
                    out.append((name, m))
        return out

    def before_move(self, name):
        ids = self.atoms.arrays["vid"].copy()
        maps = []
        for nm, m in self.label_moves():
            lab = np.asarray(m.labels)
            maps.append(dict(zip(ids.tolist(), lab.tolist())) if len(lab) == len(ids) else None)
        return {"ids": ids, "maps": maps}

    def after_move(self, pre, name, verdict):
        key = {True: "A", False: "R", None: "F"}.get(verdict, "?")
        self.verdicts += key
        entry = self.entry_expr(name)
        has_exch = any(l["t"] == "exch" for l in S.expr_leaves(entry))
        atoms = self.atoms
        ids = atoms.arrays["vid"]
        new_pos = np.flatnonzero(ids == 0)
        removed = sorted(set(pre["ids"].tolist()) - set(ids.tolist()))
        k = len(self.mc.exchange_atoms)
        where = f"after a {'accepted' if verdict else 'rejected' if verdict is False else 'failed'} trial of {name} ({M_shape(entry)})"
        if verdict is not True and (len(new_pos) or removed):
            self.fail("atoms-changed-without-acceptance", f"{where}: {len(new_pos)} new atoms, removed ids {removed}")
            return
        n_ins = n_del = 0
        if verdict is True:
            if len(new_pos) % k:
                self.fail("partial-particle", f"{where}: {len(new_pos)} new atoms is not a multiple of the species size {k}")
                return
            n_ins = len(new_pos) // k
            if removed:
                # particles deleted = distinct labels (of the deleting exchange move) among the removed atoms
                exm = [i for i, (nm, m) in enumerate(self.label_moves()) if hasattr(m, "to_delete_label") and m in self.elementary(name)]
                mp = pre["maps"][exm[0]] if exm and pre["maps"][exm[0]] else None
                n_del = len({mp[i] for i in removed}) if mp else 1
            if has_exch and (n_ins or n_del):
                self.accepted_exchanges += 1
                self.labels.add("accepted:insertion" if n_ins else "accepted:deletion")
            self.n_model += n_ins - n_del
        elif has_exch:
            self.refused_exchanges += 1
        # --- per label-bearing move invariants
        for (nm, m), mp in zip(self.label_moves(), pre["maps"]):
            lab = np.asarray(m.labels)
            tag = f"{type(m).__name__} of {nm}"
            if len(lab) != len(atoms):
                self.fail("labels-misaligned", f"{where}: len(labels)={len(lab)} of {tag} but len(atoms)={len(atoms)}")
                return
            if mp is None:
                continue
            for pos, i in enumerate(ids.tolist()):
                if i != 0 and mp.get(i) != int(lab[pos]):
                    self.fail("survivor-label-changed", f"{where}: {tag}: label of surviving atom id {i} changed {mp.get(i)} -> {int(lab[pos])}")
                    return
            if n_ins:
                old_labels = {v for i, v in mp.items() if i not in removed and v >= 0}
                dl = getattr(m, "default_label", None)
                chunk_labels = []
                for c in range(n_ins):
                    ch = lab[new_pos[c * k:(c + 1) * k]]
                    if len(set(ch.tolist())) != 1:
                        self.fail("particle-split-labels", f"{where}: {tag}: atoms of one inserted particle carry labels {ch.tolist()}")
                        return
                    chunk_labels.append(int(ch[0]))
                if dl is not None:
                    if any(cl != dl for cl in chunk_labels):
                        self.fail(f"default-label-ignored:{dl}", f"{where}: {tag}: default_label={dl!r} configured but new atoms got labels {chunk_labels}")
                        return
                else:
                    if len(set(chunk_labels)) != len(chunk_labels):
                        self.fail("shared-label", f"{where}: {tag}: {n_ins} particles inserted in one trial share labels {chunk_labels}")
                        return
                    for cl in chunk_labels:
                        if cl < 0 or cl in old_labels:
                            self.fail("label-not-distinct", f"{where}: {tag}: new particle got label {cl}, existing particle labels {sorted(old_labels)}")
                            return
        if int(self.mc.number_of_exchange_particles) != self.n_model:
            self.fail("particle-counter", f"{where}: number_of_exchange_particles={self.mc.number_of_exchange_particles} but initial + accepted insertions - accepted deletions = {self.n_model}")
            return
        tpl = self.template
        if S.diff_snapshots(self.template_snap, S.snapshot_atoms(tpl)) or tpl.positions.tobytes() != self.template_pos:
            self.fail("template-modified", f"{where}: the user's exchange template changed: {S.diff_snapshots(self.template_snap, S.snapshot_atoms(tpl))}")
            return
        # give the new atoms their identities
        for p in new_pos:
            ids[p] = self.next_id
            self.next_id += 1


    def is_nontrivial(self):
        return getattr(self, "accepted_exchanges", 0) >= 2 and getattr(self, "refused_exchanges", 0) >= 1

    def distinct_key(self):
        if self.mc is None:
            return None
        dls = sorted({str(l.get("default_label", "unset")) for e in self.scn["entries"] for l in S.expr_leaves(e)})
        return "|".join([",".join(M_shape(e) for e in self.scn["entries"]), str(len(self.mc.exchange_atoms)), ",".join(dls), str(self.scn.get("alias_of")), self.verdicts[:8]])


def M_shape(e):
    from props.c03 import shape

    return shape(e)


def scenario_strategy(known_active):
    exclude = set()
    if "composite-multi-exchange" in known_active:
        exclude.add("multi-exchange")
    return M.scenario(ensembles=["GrandCanonical"], exclude=tuple(exclude), default_labels=True, alias=True, extra_arrays=False, constraints=False)


def _scn(case):
    return case["log"][0]["args"]["scn"] if case.get("log") else {}


KNOWN = {
    "composite-multi-exchange": {
        "text": "composite entry in which an exchange move is followed by another label-bearing move (exch+disp, exch+exch, exch*k): particles inserted together share one label, "
                "later sub-moves use stale labels, deletions overlap (labels/counter no longer track the atoms)",
        "match": lambda part, kind, case: any(M.exchange_then_labelled(e) for e in _scn(case).get("entries", [])),
    },
}


def plan(tier):
    if tier == "quick":
        return [{"part": "machine", "shards": 16, "budget": {"n_examples": 250, "steps": 25}}]
    return [{"part": "machine", "shards": 16, "budget": {"n_examples": 2500, "steps": 50}}]


def run_part(part, seed, shard, nshards, budget):
    strat = scenario_strategy(set(budget.get("known_active", [])))
    return hyp.run_machine(lambda sink: M.specialise(C05Machine, sink, strat), budget["n_examples"], budget["steps"], seed, part)


def replay(part, case):
    return M.replay_log(C05Machine, case)
