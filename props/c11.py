"""C11 - a displacement move moves only the chosen particle.

Generated: atoms (1-10), label arrays with negative / repeated / non-contiguous / unsorted values,
operations wrapped in a recorder, pre-selected or random targets, composites of n moves built with
`*` and `+`, scripted geometric vetoes.  Oracle: before/after position diff of `move(context)`.
"""
from __future__ import annotations

import warnings

import numpy as np
from ase import Atoms
from hypothesis import strategies as st

from vlib import hyp
from vlib.gen import fl

ID = "C11"
LEVEL = "exploration"
TECHNIQUE = "property-based testing (Hypothesis): generated label arrays/operations/composites with a before/after position-diff oracle"
RULE = (
    "case = (1-10 atoms, labels in [-3,6], operation in {Ball,Box,Sphere,Translation,Rotation,TranslationRotation,composite operation}, pre-selected label or not, "
    "composite of n in 1..6 sub-moves via * and +, veto script, seed). Non-trivial = labels contain a negative, a repeated and a non-contiguous value, or a composite "
    "with n > number of eligible particles; distinct = (sorted label multiset, operation, n, preselected, veto pattern). "
    "sequences: 2-5 steps on ONE move object (calls, calls whose attempts are all vetoed, atoms appended + on_atoms_changed with an existing / automatic / negative label); "
    "non-trivial = a vetoed call or an atom addition precedes a successful call."
)
ASSUMPTIONS = [
    "no constraints are attached (the statement's 'when no constraint interferes'); constraints are C12's subject",
    "in composites all sub-moves share the same labelling (particle identity across different labellings is not defined by the statement)",
]
LEVEL_TEXT = "Bounded exploration of label arrays and composites with an exact position-diff oracle; each case is a single call of move(context), so tens of thousands of cases are cheap."
LEVEL_NOTE = "Trusted: numpy array comparison; the recording wrapper around shipped operations."
DESIGN_REF = "DESIGN.md section 3, C11"

OPS = ["Ball", "Box", "Sphere", "Translation", "Rotation", "TranslationRotation", "CompBallBox"]


@st.composite
def case_st(draw):
    n = draw(st.integers(1, 10))
    labels = draw(st.lists(st.integers(-3, 6), min_size=n, max_size=n))
    comp = draw(st.sampled_from(["single", "single", "mul", "add", "mixed", "radd", "radd_same"]))
    return {
        "pos": [[draw(fl(0.5, 7.5)) for _ in range(3)] for _ in range(n)],
        "labels": labels,
        "op": draw(st.sampled_from(OPS)),
        "op2": draw(st.sampled_from(["Ball", "Box", "Translation"])),
        "size": draw(fl(0.05, 1.5)),
        "comp": comp,
        "n": 1 if comp == "single" else draw(st.integers(1, 6)),
        "preselect": draw(st.one_of(st.none(), st.integers(0, 20))) if comp == "single" else None,
        # a target left on constituents of a composite before the call (constituent index, pick among the eligible labels)
        "presub": [] if comp == "single" else draw(st.lists(st.tuples(st.integers(0, 6), st.integers(0, 20)).map(list), max_size=3)),
        "veto": draw(st.lists(st.booleans(), min_size=0, max_size=4)),  # True = veto this attempt
        "max_attempts": draw(st.integers(1, 4)),
        "seed": draw(st.integers(0, 2 ** 32)),
    }


def make_op(name, size, rec):
    from quansino.operations import displacement as od
    from quansino.operations.core import BaseOperation

    if name == "CompBallBox":
        inner = od.Ball(size) + od.Box(size * 0.5)
    elif name in ("Ball", "Box", "Sphere"):
        inner = getattr(od, name)(size)
    else:
        inner = getattr(od, name)()

    class Recorder(BaseOperation):
        def calculate(self, context):
            seen = context.atoms.positions.copy()
            r = np.asarray(inner.calculate(context), dtype=float)
            rec.append((np.array(context._moving_indices).copy(), r.copy(), seen))
            return r

    return Recorder()


def run_case(case):
    from quansino.mc.contexts import DisplacementContext
    from quansino.moves.displacement import CompositeDisplacementMove, DisplacementMove

    n_atoms = len(case["pos"])
    labels = np.array(case["labels"], dtype=int)
    atoms = Atoms("H" * n_atoms, positions=case["pos"], cell=[8, 8, 8], pbc=True)
    ctx = DisplacementContext(atoms, np.random.Generator(np.random.PCG64(case["seed"])))
    rec = []
    veto = list(case["veto"])
    calls = {"n": 0}

    accepted_attempts = []  # moving indices of every attempt the geometric check let through

    def check_move(*_a, **_k):
        i = calls["n"]
        calls["n"] += 1
        ok = not (i < len(veto) and veto[i])
        if ok and rec:
            accepted_attempts.append(rec[-1][0].copy())
        return ok

    def mk(opname):
        m = DisplacementMove(labels.copy(), make_op(opname, case["size"], rec))
        m.max_attempts = case["max_attempts"]
        m.check_move = check_move
        return m

    base = mk(case["op"])
    if case["comp"] == "single":
        move = base
    elif case["comp"] == "mul":
        move = base * case["n"]
    elif case["comp"] == "add":
        move = base
        for _ in range(case["n"] - 1):
            move = move + mk(case["op2"])
        if case["n"] == 1:
            move = base * 1
    elif case["comp"] == "mixed":
        move = (base * max(1, case["n"] // 2)) + (mk(case["op2"]) * max(1, case["n"] - case["n"] // 2))
    elif case["comp"] == "radd":
        move = base + (mk(case["op2"]) * case["n"])  # a single move on the left of a composite
    else:
        move = base + (base * case["n"])
    eligible = sorted(set(int(l) for l in labels if l >= 0))
    pre = None
    if case["preselect"] is not None and eligible:
        pre = eligible[case["preselect"] % len(eligible)]
        base.to_displace_labels = pre
    before = atoms.positions.copy()
    labs = ["comp:" + case["comp"], "op:" + case["op"]]
    subs = list(getattr(move, "moves", []))
    if case.get("presub") and eligible and subs:
        for i, pick in case["presub"]:
            subs[i % len(subs)].to_displace_labels = eligible[pick % len(eligible)]
        labs.append("constituent-preselected")
    has_neg, has_rep = bool(np.any(labels < 0)), len(set(labels.tolist())) < n_atoms
    noncontig = bool(eligible) and eligible != list(range(len(eligible)))
    try:
        with warnings.catch_warnings():
            warnings.simplefilter("ignore")
            result = move(ctx)
    except Exception as exc:
        return {"labels": labs + ["raised"], "nontrivial": True, "violation": {"kind": f"raises:{type(exc).__name__}", "detail": f"{case['comp']} n={case['n']} labels={labels.tolist()}: {exc!r}"[:400]}}
    after = atoms.positions
    changed = sorted(int(i) for i in np.flatnonzero(np.any(after != before, axis=1)))
    n_sub = len(move.moves) if isinstance(move, CompositeDisplacementMove) else 1
    nontrivial = (has_neg and has_rep and noncontig) or (n_sub > len(eligible) and n_sub > 1)
    key = f"{sorted(labels.tolist())}|{case['op']}|{case['comp']}|{n_sub}|{pre is not None}|{case['veto']}|{case['max_attempts']}"
    out = {"labels": labs, "nontrivial": bool(nontrivial), "key": key, "violation": None}
    desc = f"labels={labels.tolist()} op={case['op']} comp={case['comp']} n={n_sub} preselect={pre} veto={case['veto']} max_attempts={case['max_attempts']}"

    def viol(kind, detail):
        out["nontrivial"] = True
        out["violation"] = {"kind": kind, "detail": f"{desc}: {detail}"}
        return out

    neg_rows = [int(i) for i in np.flatnonzero(labels < 0)]
    if set(changed) & set(neg_rows):
        return viol("negative-label-moved", f"atoms {sorted(set(changed) & set(neg_rows))} carry negative labels but moved")
    if not eligible:
        labs.append("no-eligible")
        if result or changed:
            return viol("no-eligible-not-failure", f"no eligible particle, but move returned {result!r} and rows {changed} changed")
        return out
    if case["comp"] != "single":
        # independent of the move's own bookkeeping: every attempt that passed the geometric check displaced the
        # particle it was computed for; no particle may be among them twice
        moved = [int(labels[a[0]]) for a in accepted_attempts if len(a)]
        if len(moved) != len(set(moved)):
            return viol("particle-moved-twice", f"particles with labels {moved} were displaced in one call of a composite of displacement moves ({type(move).__name__})")
        if not isinstance(move, CompositeDisplacementMove):
            return viol("composite-type", f"a composite built from displacement moves only is a {type(move).__name__}, not the displacement composite (no exclusion of already displaced particles, no count)")
    if isinstance(move, CompositeDisplacementMove):
        dl = list(move.displaced_labels)
        real = [int(x) for x in dl if x is not None]
        if len(real) != len(set(real)):
            return viol("particle-moved-twice", f"displaced_labels={dl} contains a repeated label")
        if move.number_of_moved_particles != len(real):
            return viol("moved-count", f"number_of_moved_particles={move.number_of_moved_particles} but displaced_labels={dl}")
        if bool(result) != (len(real) > 0):
            return viol("composite-result", f"returned {result!r} with displaced_labels={dl}")
        no_veto = not any(veto[: calls["n"]])
        if no_veto and len(real) != min(n_sub, len(eligible)):
            return viol("composite-count", f"no veto: displaced {len(real)} particles, expected min(n={n_sub}, eligible={len(eligible)})")
        rows = sorted(int(i) for l in real for i in np.flatnonzero(labels == l))
        # a particle may legitimately end where it started only with probability zero
        if not set(changed) <= set(rows):
            return viol("other-atoms-moved", f"rows {sorted(set(changed) - set(rows))} changed but displaced labels are {real}")
        rot = case["op"] in ("Rotation", "TranslationRotation") or case["op2"] in ("Rotation",)
        if not rot and set(rows) != set(changed):
            return viol("selected-atoms-not-moved", f"displaced labels {real} cover rows {rows} but rows {changed} changed")
        labs.append("composite-checked")
        return out
    # single move
    sel = move.displaced_labels
    if not result:
        labs.append("failed")
        if changed:
            return viol("failed-but-changed", f"move returned {result!r} but rows {changed} changed")
        ma = case["max_attempts"]
        if not (len(veto) >= ma and all(veto[:ma])):
            return viol("failed-without-veto", f"move failed although not every one of its {ma} attempts was vetoed ({calls['n']} attempts made)")
        if move.to_displace_labels is not None:
            return viol("preselection-not-cleared", "to_displace_labels still set after failure")
        return out
    if sel is None or int(sel) not in eligible:
        return viol("bad-selection", f"displaced_labels={sel!r} is not an eligible label")
    if pre is not None and int(sel) != pre:
        return viol("preselection-ignored", f"pre-selected label {pre} but label {sel} was displaced")
    rows = [int(i) for i in np.flatnonzero(labels == int(sel))]
    if not set(changed) <= set(rows):
        return viol("other-atoms-moved", f"selected label {sel} (rows {rows}) but rows {changed} changed")
    for k_att, (_i, _v, seen) in enumerate(rec):
        if not np.array_equal(seen, before):
            return viol("attempt-not-from-original-positions", f"attempt {k_att} was computed while rows {sorted(int(i) for i in np.flatnonzero(np.any(seen != before, axis=1)))} still carried the positions of an earlier, vetoed attempt")
    idx, vec, _seen = rec[-1]
    if sorted(idx.tolist()) != rows:
        return viol("moving-indices", f"operation saw moving indices {idx.tolist()}, selected label {sel} has rows {rows}")
    expect = before.copy()
    tr = np.zeros_like(before)
    tr[idx] = vec
    expect = before + tr
    if not np.array_equal(after, expect):
        return viol("not-operation-result", f"selected rows did not move by the operation's result (max deviation {np.abs(after - expect).max():.3e})")
    if case["op"] in ("Rotation", "Translation", "TranslationRotation") and len(rows) > 1:
        d0 = np.linalg.norm(before[rows][:, None] - before[rows][None], axis=-1)
        d1 = np.linalg.norm(after[rows][:, None] - after[rows][None], axis=-1)
        if np.abs(d0 - d1).max() > 1e-9:
            return viol("group-deformed", f"label {sel} rows {rows}: a rigid operation changed the group's internal distances by {np.abs(d0 - d1).max():.3e}")
    if case["op"] not in ("Rotation", "TranslationRotation") and set(changed) != set(rows):
        return viol("selected-atoms-not-moved", f"label {sel} rows {rows} but rows {changed} changed")
    return out


# ------------------------------------------------------------------ sequences of calls on ONE move object
@st.composite
def seq_case(draw):
    n = draw(st.integers(2, 8))
    labels = draw(st.lists(st.integers(-2, 4), min_size=n, max_size=n).map(lambda ls: ls if any(x >= 0 for x in ls) else [0] + ls[1:]))
    steps = []
    for _ in range(draw(st.integers(2, 5))):
        kind = draw(st.sampled_from(["call", "call", "call_veto_all", "add_atoms", "relabel_sibling"]))
        if kind == "relabel_sibling":
            # another move object built from the very same label array is given a new labelling of the same length
            steps.append(["relabel_sibling", [draw(st.integers(-3, 6)) for _ in range(12)]])
        elif kind == "add_atoms":
            steps.append(["add_atoms", draw(st.integers(1, 2)), draw(st.sampled_from(["existing", "auto", "negative"])), draw(st.integers(0, 10))])
        else:
            steps.append([kind, draw(st.one_of(st.none(), st.integers(0, 10)))])
    return {"pos": [[draw(fl(0.5, 7.5)) for _ in range(3)] for _ in range(n)], "labels": labels, "op": draw(st.sampled_from(["Ball", "Box", "Translation"])),
            "size": draw(fl(0.05, 1.0)), "steps": steps, "max_attempts": draw(st.integers(1, 3)), "seed": draw(st.integers(0, 2 ** 32))}


def run_seq(case):
    from quansino.mc.contexts import DisplacementContext
    from quansino.moves.displacement import DisplacementMove

    atoms = Atoms("H" * len(case["pos"]), positions=case["pos"], cell=[8, 8, 8], pbc=True)
    ctx = DisplacementContext(atoms, np.random.Generator(np.random.PCG64(case["seed"])))
    rec = []
    shared_array = np.array(case["labels"], dtype=int)
    move = DisplacementMove(shared_array, make_op(case["op"], case["size"], rec))
    sibling = DisplacementMove(shared_array, make_op("Ball", 0.1, []))  # users build several moves from one array
    move.max_attempts = case["max_attempts"]
    veto_all = {"on": False}
    move.check_move = lambda *_a, **_k: not veto_all["on"]
    model = list(case["labels"])  # the harness' own copy of the labelling
    labs = ["sequence", "op:" + case["op"]]
    nontrivial = False
    desc0 = f"labels={case['labels']} op={case['op']} steps={case['steps']}"
    try:
        with warnings.catch_warnings():
            warnings.simplefilter("ignore")
            for si, st_ in enumerate(case["steps"]):
                if st_[0] == "relabel_sibling":
                    sibling.set_labels(np.array(st_[1][: len(np.asarray(sibling.labels))], dtype=int))
                    labs.append("sibling-relabelled")
                    nontrivial = True
                    continue
                if st_[0] == "add_atoms":
                    k, how, pick = st_[1], st_[2], st_[3]
                    elig = sorted({l for l in model if l >= 0})
                    if how == "existing" and elig:
                        move.default_label = elig[pick % len(elig)]
                        new_label = move.default_label
                    elif how == "negative":
                        move.default_label = -1
                        new_label = -1
                    else:
                        move.default_label = None
                        new_label = (max(elig) + 1) if elig else 0
                    n0 = len(atoms)
                    atoms.extend(Atoms("H" * k, positions=[[1.0 + 0.3 * j, 1.0, 7.0] for j in range(k)]))
                    move.on_atoms_changed(list(range(n0, n0 + k)), [])
                    model += [new_label] * k
                    ctx.last_positions = atoms.get_positions()
                    labs.append("atoms-added:" + how)
                    nontrivial = True
                    continue
                veto_all["on"] = st_[0] == "call_veto_all"
                elig = sorted({l for l in model if l >= 0})
                pre = None
                if st_[1] is not None and elig:
                    pre = elig[st_[1] % len(elig)]
                    move.to_displace_labels = pre
                before = atoms.positions.copy()
                n_rec = len(rec)
                result = move(ctx)
                after = atoms.positions
                changed = sorted(int(i) for i in np.flatnonzero(np.any(after != before, axis=1)))
                desc = f"{desc0} at step {si}"
                arr = np.array(model)
                if veto_all["on"] or not elig:
                    if result or changed:
                        return {"labels": labs, "nontrivial": True, "violation": {"kind": "seq:failed-but-changed", "detail": f"{desc}: vetoed/ineligible call returned {result!r}, rows {changed} changed"}}
                    if si > 0:
                        nontrivial = True
                    continue
                if not result:
                    return {"labels": labs, "nontrivial": True, "violation": {"kind": "seq:unexpected-failure", "detail": f"{desc}: call failed without veto"}}
                sel = int(move.displaced_labels)
                if sel < 0 or sel not in elig:
                    return {"labels": labs, "nontrivial": True, "violation": {"kind": "seq:ineligible-label-selected", "detail": f"{desc}: the move displaced the particle with label {sel}; eligible (non-negative) labels are {elig} (harness labelling {model})"}}
                if pre is not None and sel != pre:
                    return {"labels": labs, "nontrivial": True, "violation": {"kind": "seq:preselection-ignored", "detail": f"{desc}: pre-selected {pre}, displaced {sel}"}}
                rows = [int(i) for i in np.flatnonzero(arr == sel)]
                if changed != rows:
                    return {"labels": labs, "nontrivial": True, "violation": {"kind": "seq:wrong-atoms-moved", "detail": f"{desc}: selected label {sel} has atoms {rows} (harness labelling {model}) but atoms {changed} moved"}}
                if len(rec) > n_rec:
                    idx, vec, _seen = rec[-1]
                    tr = np.zeros_like(before)
                    tr[idx] = vec
                    if not np.array_equal(after, before + tr):
                        return {"labels": labs, "nontrivial": True, "violation": {"kind": "seq:not-operation-result", "detail": f"{desc}: moved rows differ from the operation's last result"}}
                if len(np.asarray(move.labels)) != len(atoms) or list(np.asarray(move.labels)) != model:
                    return {"labels": labs, "nontrivial": True, "violation": {"kind": "seq:labels-drift", "detail": f"{desc}: move.labels={list(np.asarray(move.labels))} but the labelling should be {model}"}}
    except Exception as exc:
        return {"labels": labs + ["raised"], "nontrivial": True, "violation": {"kind": f"seq:raises:{type(exc).__name__}", "detail": f"{desc0}: {exc!r}"[:400]}}
    return {"labels": sorted(set(labs)), "nontrivial": nontrivial, "key": f"{sorted(case['labels'])}|{[s[0] for s in case['steps']]}|{case['op']}", "violation": None}


def plan(tier):
    if tier == "quick":
        return [{"part": "moves", "shards": 11, "budget": {"n_examples": 2000}}, {"part": "sequences", "shards": 5, "budget": {"n_examples": 1500}}]
    return [{"part": "moves", "shards": 11, "budget": {"n_examples": 50000}}, {"part": "sequences", "shards": 5, "budget": {"n_examples": 40000}}]


def run_part(part, seed, shard, nshards, budget):
    if part == "sequences":
        return hyp.search(seq_case(), run_seq, budget["n_examples"], seed, part)
    return hyp.search(case_st(), run_case, budget["n_examples"], seed, part)


def replay(part, case):
    return run_seq(case) if part == "sequences" else run_case(case)
