#!/opt/veriftools/pyvenv/bin/python
"""Validate MANIFEST.json and every evidence file against the given schemas (uses the tooling venv's jsonschema)."""
import glob
import json
import os
import sys

import jsonschema

ROOT = os.path.dirname(os.path.dirname(os.path.abspath(__file__)))
ok = True
man = json.load(open(os.path.join(ROOT, "MANIFEST.json")))
jsonschema.validate(man, json.load(open("/root/.vp/MANIFEST.schema.json")))
es = json.load(open("/root/.vp/EVIDENCE.schema.json"))
for c in man["checks"]:
    p = os.path.join(ROOT, c["evidence_file"])
    if not os.path.exists(p):
        print("MISSING evidence", p)
        ok = False
        continue
    try:
        ev = json.load(open(p))
        jsonschema.validate(ev, es)
        assert ev["level"] == c["level_claimed"]["category"], "level mismatch"
        print("ok", c["property_id"], ev["tier"], "evals", ev["coverage"]["evaluations"], "nt", ev["coverage"]["distinct_nontrivial"], "wall", ev["wall_s"])
    except Exception as e:
        ok = False
        print("INVALID", p, str(e)[:300])
ids = {c["property_id"] for c in man["checks"]} | {n["property_id"] for n in man.get("not_applicable", [])}
allp = {json.loads(l)["id"] for l in open(os.path.join(ROOT, "properties.jsonl"))}
if ids != allp:
    ok = False
    print("manifest does not cover", sorted(allp - ids))
sys.exit(0 if ok else 1)
