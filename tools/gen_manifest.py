#!/venv/bin/python
"""Regenerate MANIFEST.json from the property modules that exist (claimed) and the rest (not_applicable)."""
import importlib
import json
import os
import subprocess
import sys

ROOT = os.path.dirname(os.path.dirname(os.path.abspath(__file__)))
sys.path.insert(0, ROOT)
sys.path.insert(0, "/repo/src")

props = [json.loads(l) for l in open(os.path.join(ROOT, "properties.jsonl"))]
checks, na = [], []
for p in props:
    pid = p["id"]
    path = os.path.join(ROOT, "props", pid.lower() + ".py")
    if not os.path.exists(path):
        na.append({"property_id": pid, "reason": "not claimed yet: its check has not been built in this round (the technique applies; see DESIGN.md section 3)"})
        continue
    mod = importlib.import_module("props." + pid.lower())
    if getattr(mod, "NOT_CLAIMED", None):
        na.append({"property_id": pid, "reason": mod.NOT_CLAIMED})
        continue
    checks.append({
        "property_id": pid,
        "quick_cmd": f"./check {pid} --tier quick",
        "thorough_cmd": f"./check {pid} --tier thorough",
        "evidence_file": f"evidence/{pid}.json",
        "replay_cmd_template": f"./check {pid} --replay {{path}}",
        "engine": "hypothesis-pbt",
        "level_claimed": {"category": mod.LEVEL, "text": mod.LEVEL_TEXT, "design_ref": mod.DESIGN_REF},
        "level_note": mod.LEVEL_NOTE,
        "technique": mod.TECHNIQUE,
    })

commits = subprocess.run(["git", "-C", "/repo", "log", "--format=%h %s", "1999468..HEAD"], capture_output=True, text=True).stdout.strip().splitlines()
hook_commits = [c.split()[0] for c in commits if c.split(" ", 1)[1].startswith("verif-hook:")]
manifest = {
    "version": 1,
    "setup_cmd": "./setup.sh",
    "hooks": {
        "guard": "QUANSINO_VERIF",
        "enable": "No instrumentation inside quansino is needed: every check observes public objects (step generator, move_history, context, labels, user-supplied criteria/moves/calculators/observers/file objects). ./check sets QUANSINO_VERIF=1 for uniformity; nothing in /repo reads it. Checks put /repo/src first on PYTHONPATH, so they always execute the current working tree.",
        "baseline_off_cmd": "cd /repo && /venv/bin/python -m pytest -ra -q -p no:cacheprovider --timeout=900 --continue-on-collection-errors",
        "source_commits": hook_commits,
        "add_only": True,
    },
    "engines": [
        {"name": "hypothesis-pbt", "path": "vlib/", "serves_properties": [c["property_id"] for c in checks],
         "kind_free_text": "Hypothesis 6.168 strategies and rule-based state machines driven by vlib/hyp.py (seeded collect-then-shrink), sharded over 16 processes by vlib/runner.py; explicit oracles per property in props/cNN.py; finite sub-domains enumerated with itertools"},
    ],
    "checks": checks,
    "not_applicable": na,
    "notes": "Run from /verif. VERIF_SEED seeds every generator (default 1). Exit 0 = held (KNOWN-FINDING lines allowed), 1 = VIOLATION line(s), 2 = harness error. known_findings.txt lists recorded findings and the fix: commits made in /repo. tools/mutants.py + mutants_results.json document sensitivity; seeded/ holds independently written breaking changes.",
}
json.dump(manifest, open(os.path.join(ROOT, "MANIFEST.json"), "w"), indent=1)
print("claimed:", [c["property_id"] for c in checks], "not claimed:", len(na))
