#!/bin/bash
# Run every thorough check once (background use: vp run --timeout 8h -- bash tools/thorough_all.sh); summary in thorough_summary.txt
cd "$(dirname "$0")/.."
./setup.sh > /dev/null 2>&1
mkdir -p thorough_logs
: > thorough_summary.txt
for id in ${IDS:-C02 C03 C04 C05 C06 C07 C08 C09 C10 C11 C12 C13 C14 C15 C16 C17 C18 C19 C20 C01}; do
  t0=$(date +%s)
  ./check $id --tier thorough > thorough_logs/$id.log 2>&1
  rc=$?
  t1=$(date +%s)
  echo "$id rc=$rc wall=$((t1-t0))s $(grep -c '^VIOLATION' thorough_logs/$id.log) violations; $(grep "^\[$id\] tier" thorough_logs/$id.log | cut -c1-160)" >> thorough_summary.txt
done
echo DONE >> thorough_summary.txt
