#!/venv/bin/python
"""Sensitivity harness: apply a small deliberate breakage to a scratch copy of /repo/src (under /tmp,
removed afterwards), run a check against it (QUANSINO_SRC) and report whether the check turned red.

usage: tools/mutants.py [--prop C02] [--name NAME] [--tier quick] [--list]
Mutants live in tools/mutants/<ID>.py as a list MUTANTS = [ {name, file, old, new, note} ... ].
Results are appended to mutants_results.json (committed; documents which check catches what).
"""
from __future__ import annotations

import argparse
import importlib.util
import json
import os
import shutil
import subprocess
import sys
import time

ROOT = os.path.dirname(os.path.dirname(os.path.abspath(__file__)))


def load(prop):
    path = os.path.join(ROOT, "tools", "mutants", f"{prop}.py")
    if not os.path.exists(path):
        return []
    spec = importlib.util.spec_from_file_location(f"mut_{prop}", path)
    mod = importlib.util.module_from_spec(spec)
    spec.loader.exec_module(mod)
    return mod.MUTANTS


def run_one(prop, m, tier, extra, do_harvest=False):
    scratch = f"/tmp/mut_{prop}_{m['name']}_{os.getpid()}"
    shutil.rmtree(scratch, ignore_errors=True)
    shutil.copytree("/repo/src", os.path.join(scratch, "src"))
    try:
        edits = m.get("edits") or [(m["file"], m["old"], m["new"])]
        for f, old, new in edits:
            p = os.path.join(scratch, "src", "quansino", f)
            s = open(p).read()
            if s.count(old) < 1:
                return {"name": m["name"], "status": "STALE (pattern not found)", "rc": None}
            s = s.replace(old, new, 1)
            open(p, "w").write(s)
        env = dict(os.environ, QUANSINO_SRC=os.path.join(scratch, "src"))
        env.pop("_VERIF_REEXEC", None)
        t0 = time.time()
        cp = subprocess.run([os.path.join(ROOT, "check"), prop, "--tier", tier] + extra, env=env, capture_output=True, text=True, cwd=ROOT)
        wall = time.time() - t0
        viol = [l for l in cp.stdout.splitlines() if l.startswith("violation ")]
        status = "CAUGHT" if cp.returncode == 1 and "VIOLATION property=" in cp.stdout else ("HARNESS-ERROR" if cp.returncode == 2 else "MISSED")
        if status == "HARNESS-ERROR":
            sys.stderr.write(cp.stdout[-2000:] + cp.stderr[-2000:])
        res = {"name": m["name"], "status": status, "rc": cp.returncode, "wall_s": round(wall, 1), "first": (viol[0][:300] if viol else ""), "note": m.get("note", "")}
        if do_harvest and status == "CAUGHT":
            sys.path.insert(0, os.path.join(ROOT, "tools"))
            from seeded import harvest

            reps = [l.split("replay=", 1)[1].strip() for l in cp.stdout.splitlines() if l.startswith("VIOLATION property=") and "replay=" in l]
            res["corpus"] = harvest(m["name"], prop, os.path.join(scratch, "src"), reps, limit=1, prefix="mut",
                                    origin=f"shrunk reproduction of the deliberate breakage tools/mutants/{prop}.py:{m['name']} (must hold on a correct tree)")
        return res
    finally:
        shutil.rmtree(scratch, ignore_errors=True)


def main():
    ap = argparse.ArgumentParser()
    ap.add_argument("--prop", required=True)
    ap.add_argument("--name", default=None)
    ap.add_argument("--tier", default="quick")
    ap.add_argument("--list", action="store_true")
    ap.add_argument("--only", default=None)
    ap.add_argument("--keep-evidence", action="store_true")
    ap.add_argument("--harvest", action="store_true", help="store one shrunk reproduction per caught mutant under corpus/<prop>/mut-<name>.json")
    args = ap.parse_args()
    muts = load(args.prop)
    if args.list:
        for m in muts:
            print(m["name"], "-", m.get("note", ""))
        return
    extra = ["--only", args.only] if args.only else []
    ev = os.path.join(ROOT, "evidence", f"{args.prop}.json")
    saved = open(ev).read() if os.path.exists(ev) else None
    results = []
    for m in muts:
        if args.name and m["name"] != args.name:
            continue
        r = run_one(args.prop, m, args.tier, extra, args.harvest)
        print(f"{args.prop} {r['name']:<32} {r['status']:<10} {r.get('wall_s', '')}s  {r.get('first', '')[:160]}")
        results.append(r)
    # a mutant run rewrites the evidence file: restore the genuine one
    if saved is not None:
        open(ev, "w").write(saved)
    elif os.path.exists(ev):
        os.remove(ev)
    shutil.rmtree(os.path.join(ROOT, "replays", args.prop), ignore_errors=True)
    out = os.path.join(ROOT, "mutants_results.json")
    data = json.load(open(out)) if os.path.exists(out) else {}
    cur = data.setdefault(args.prop, {})
    for r in results:
        cur[r["name"]] = {k: r[k] for k in ("status", "wall_s", "first", "note", "corpus") if k in r}
    json.dump(data, open(out, "w"), indent=1, sort_keys=True)


if __name__ == "__main__":
    main()
