#!/venv/bin/python
"""Run the checks against the independently written breaking changes kept under seeded/<name>/.

Each seeded/<name>/ holds patch.diff (relative to the repository root), demo.py (fails with the change,
passes without), meta.json ({"property": "Cxx", "needs": ..., ...}).  The patch is applied to a scratch copy
of /repo (under /tmp, removed afterwards); the demo is run with and without it, then the property's check
(and optionally others) is run against the patched copy via QUANSINO_SRC.

usage: tools/seeded.py [--name NAME] [--tier quick] [--also C03,C05] [--demo-only]
Results go to seeded_results.json.
"""
from __future__ import annotations

import argparse
import json
import os
import shutil
import subprocess
import sys
import time

ROOT = os.path.dirname(os.path.dirname(os.path.abspath(__file__)))
PY = "/venv/bin/python"


def run_demo(src, demo):
    env = dict(os.environ, PYTHONPATH=src, PYTHONHASHSEED="0", OMP_NUM_THREADS="1")
    env.pop("_VERIF_REEXEC", None)
    cp = subprocess.run([PY, demo], env=env, capture_output=True, text=True, timeout=1800, cwd=os.path.dirname(demo))
    return cp.returncode, (cp.stdout + cp.stderr)[-400:]


def run_check(prop, src, tier):
    env = dict(os.environ, QUANSINO_SRC=src)
    env.pop("_VERIF_REEXEC", None)
    t0 = time.time()
    cp = subprocess.run([os.path.join(ROOT, "check"), prop, "--tier", tier], env=env, capture_output=True, text=True, cwd=ROOT)
    viol = [l for l in cp.stdout.splitlines() if l.startswith("violation ")]
    status = "CAUGHT" if cp.returncode == 1 and "VIOLATION property=" in cp.stdout else ("HARNESS-ERROR" if cp.returncode == 2 else "MISSED")
    replays = [l.split("replay=", 1)[1].strip() for l in cp.stdout.splitlines() if l.startswith("VIOLATION property=") and "replay=" in l]
    return {"status": status, "wall_s": round(time.time() - t0, 1), "first": viol[0][:300] if viol else "", "_replays": replays}


def replay_rc(prop, src, path):
    env = dict(os.environ, QUANSINO_SRC=src)
    env.pop("_VERIF_REEXEC", None)
    cp = subprocess.run([os.path.join(ROOT, "check"), prop, "--replay", path], env=env, capture_output=True, text=True, cwd=ROOT)
    return cp.returncode


def harvest(name, prop, patched_src, replays, limit=2, prefix="seed", origin=None):
    """Keep the shrunk reproductions of a caught change as regression inputs: corpus/<prop>/seed-<name>[-k].json.
    Kept only if the replay holds on the unchanged tree and fails on the changed one (both re-checked here)."""
    kept = []
    cdir = os.path.join(ROOT, "corpus", prop)
    os.makedirs(cdir, exist_ok=True)
    # reproductions harvested earlier that just failed again on the changed tree stay as they are
    for rel in replays:
        if rel.startswith(f"corpus/{prop}/{prefix}-{name}") and os.path.exists(os.path.join(ROOT, rel)):
            kept.append(rel)
    used = {os.path.basename(k) for k in kept}
    k = 0
    for rel in (r for r in replays if r.startswith("replays/")):
        if len(kept) >= limit:
            break
        src = os.path.join(ROOT, rel)
        if not os.path.exists(src):
            continue
        data = json.load(open(src))
        if len(json.dumps(data)) > 200_000:
            continue
        data["expect"] = "ok"
        data["origin"] = origin or f"shrunk reproduction of seeded/{name} (fails with that change applied, must hold otherwise)"
        while os.path.exists(os.path.join(cdir, fname := f"{prefix}-{name}" + (f"-{k}" if k else "") + ".json")):
            k += 1
        dst = os.path.join(cdir, fname)
        json.dump(data, open(dst, "w"), indent=1, sort_keys=True)
        rc_clean = replay_rc(prop, "/repo/src", dst)
        rc_patched = replay_rc(prop, patched_src, dst)
        if rc_clean == 0 and rc_patched == 1:
            kept.append(os.path.relpath(dst, ROOT))
            used.add(fname)
        else:
            print(f"   harvest rejected {os.path.basename(dst)}: replay rc clean={rc_clean} patched={rc_patched}")
            os.remove(dst)
    return kept


def main():
    ap = argparse.ArgumentParser()
    ap.add_argument("--name", default=None)
    ap.add_argument("--tier", default="quick")
    ap.add_argument("--also", default="")
    ap.add_argument("--demo-only", action="store_true")
    ap.add_argument("--harvest", action="store_true", help="store shrunk reproductions under corpus/<prop>/seed-<name>.json")
    ap.add_argument("--only-missing", action="store_true", help="skip seeds that already have a result for the requested check")
    args = ap.parse_args()
    sdir = os.path.join(ROOT, "seeded")
    out_path = os.path.join(ROOT, "seeded_results.json")
    results = json.load(open(out_path)) if os.path.exists(out_path) else {}
    saved_ev = {}
    for name in sorted(os.listdir(sdir)):
        d = os.path.join(sdir, name)
        if not os.path.isdir(d) or (args.name and name != args.name):
            continue
        meta = json.load(open(os.path.join(d, "meta.json")))
        if args.only_missing and f"{meta['property']}:{args.tier}" in results.get(name, {}).get("checks", {}) and not args.also:
            continue
        scratch = f"/tmp/seedrun_{name}_{os.getpid()}"
        shutil.rmtree(scratch, ignore_errors=True)
        os.makedirs(scratch)
        shutil.copytree("/repo/src", os.path.join(scratch, "src"))
        try:
            demo = os.path.join(d, "demo.py")
            rc_clean, _ = run_demo(os.path.join(scratch, "src"), demo)
            cp = subprocess.run(["patch", "-p1", "-s", "-d", scratch, "-i", os.path.join(d, "patch.diff")], capture_output=True, text=True)
            if cp.returncode != 0:
                print(f"{name}: PATCH DOES NOT APPLY: {cp.stdout[-300:]}{cp.stderr[-300:]}")
                results[name] = {"property": meta["property"], "status": "PATCH-STALE"}
                continue
            rc_mut, tail = run_demo(os.path.join(scratch, "src"), demo)
            rec = {"property": meta["property"], "demo_clean_rc": rc_clean, "demo_patched_rc": rc_mut, "needs": meta.get("needs", "")}
            print(f"{name}: demo clean rc={rc_clean} patched rc={rc_mut}")
            if not args.demo_only:
                props = [meta["property"]] + [p for p in args.also.split(",") if p]
                for prop in props:
                    ev = os.path.join(ROOT, "evidence", f"{prop}.json")
                    if prop not in saved_ev and os.path.exists(ev):
                        saved_ev[prop] = open(ev).read()
                    r = run_check(prop, os.path.join(scratch, "src"), args.tier)
                    reps = r.pop("_replays", [])
                    if args.harvest and r["status"] == "CAUGHT":
                        r["corpus"] = harvest(name, prop, os.path.join(scratch, "src"), reps)
                    rec.setdefault("checks", {})[f"{prop}:{args.tier}"] = r
                    print(f"   {prop} ({args.tier}): {r['status']} {r['wall_s']}s {r['first'][:200]}")
            prev = results.get(name, {})
            prev_checks = prev.get("checks", {})
            prev_checks.update(rec.get("checks", {}))
            rec["checks"] = prev_checks
            results[name] = rec
        finally:
            shutil.rmtree(scratch, ignore_errors=True)
    for prop, txt in saved_ev.items():
        open(os.path.join(ROOT, "evidence", f"{prop}.json"), "w").write(txt)
    for prop in {r["property"] for r in results.values() if "property" in r}:
        shutil.rmtree(os.path.join(ROOT, "replays", prop), ignore_errors=True)
    json.dump(results, open(out_path, "w"), indent=1, sort_keys=True)


if __name__ == "__main__":
    main()
