#!/venv/bin/python
"""Fill the generated detection tables of DESIGN.md from mutants_results.json and seeded_results.json."""
import json
import os

ROOT = os.path.dirname(os.path.dirname(os.path.abspath(__file__)))
mut = json.load(open(os.path.join(ROOT, "mutants_results.json"))) if os.path.exists(os.path.join(ROOT, "mutants_results.json")) else {}
seed = json.load(open(os.path.join(ROOT, "seeded_results.json"))) if os.path.exists(os.path.join(ROOT, "seeded_results.json")) else {}
lines = ["", "**Deliberate breakages written by me (tools/mutants).** MISSED entries are explained in the note column "
         "(equivalent for the property, or outside the reachable space of that check and covered by another).", "",
         "| Property | Mutant | Quick check | Violation kind reported / note |", "|---|---|---|---|"]
tot = caught = 0
for prop in sorted(mut):
    for name, r in sorted(mut[prop].items()):
        tot += 1
        caught += r["status"] == "CAUGHT"
        first = r.get("first", "")
        kind = first.split("kind=")[1].split(":")[0:3] if "kind=" in first else []
        kind = ":".join(kind).split(" ")[0][:60]
        note = r.get("note", "")[:110]
        lines.append(f"| {prop} | {name} | {r['status']} | {kind if r['status'] == 'CAUGHT' else ''} - {note} |")
lines += ["", f"Total: {caught} of {tot} caught by the quick tier.", ""]
if seed:
    lines += ["**Independently written breaking changes (sub-agents; seeded/).** Each was confirmed by me in a scratch copy: the suite passes, "
              "the demonstration fails with the change and passes without.", "", "| Seed | Property | Needs | Checks run -> result |", "|---|---|---|---|"]
    for name, r in sorted(seed.items()):
        checks = "; ".join(f"{k}: {v['status']}" for k, v in sorted(r.get("checks", {}).items()))
        lines.append(f"| {name} | {r.get('property')} | {str(r.get('needs', ''))[:140]} | {checks} |")
    lines.append("")
p = os.path.join(ROOT, "DESIGN.md")
s = open(p).read()
a = s.index("<!-- BEGIN GENERATED: detection -->") + len("<!-- BEGIN GENERATED: detection -->")
b = s.index("<!-- END GENERATED: detection -->")
open(p, "w").write(s[:a] + "\n" + "\n".join(lines) + "\n" + s[b:])
print(f"mutants {caught}/{tot}; seeds {len(seed)}")
