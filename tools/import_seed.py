#!/venv/bin/python
"""Confirm an independently written breaking change and store it under seeded/<name>/.

usage: tools/import_seed.py <PROP> <src_dir> <suffix> <name> "<needs>"
  <src_dir>/patch<suffix>.diff, demo<suffix>.py, notes<suffix>.md  (suffix '' or '2')
Steps (all in a scratch worktree of /repo HEAD under /tmp, removed afterwards):
  1. apply the patch, run the repository's suite (-n 8; the two probabilistic cell tests are re-run once if they are the only failures)
  2. run the demo with the change (must fail), revert, run the demo again (must pass)
  3. copy patch.diff, demo.py, notes.md and write meta.json
"""
import json
import os
import shutil
import subprocess
import sys

ROOT = os.path.dirname(os.path.dirname(os.path.abspath(__file__)))
prop, src, suffix, name, needs = sys.argv[1:6]
wt = f"/tmp/confirm_{name}"
subprocess.run(["git", "-C", "/repo", "worktree", "prune"])
shutil.rmtree(wt, ignore_errors=True)
subprocess.run(["git", "-C", "/repo", "worktree", "add", "--detach", "-q", wt, "HEAD"], check=True)
env = dict(os.environ, PYTHONPATH=f"{wt}/src", PYTHONHASHSEED="0")
env.pop("_VERIF_REEXEC", None)
ok = True
try:
    patch = os.path.join(src, f"patch{suffix}.diff")
    demo = os.path.join(src, f"demo{suffix}.py")
    cp = subprocess.run(["git", "-C", wt, "apply", patch], capture_output=True, text=True)
    if cp.returncode:
        print("PATCH DOES NOT APPLY", cp.stderr[-500:])
        sys.exit(1)

    def suite():
        r = subprocess.run(["/venv/bin/python", "-m", "pytest", "-q", "-p", "no:cacheprovider", "--timeout=900", "-n", "8"], cwd=wt, env=env, capture_output=True, text=True)
        tail = r.stdout.strip().splitlines()[-1] if r.stdout.strip() else ""
        failed = [l for l in r.stdout.splitlines() if l.startswith("FAILED")]
        return r.returncode, tail, failed

    rc, tail, failed = suite()
    flaky = ("test_isobaric_simulation", "test_isotension_simulation_with_mask", "test_isotension_simulation")
    if rc and failed and all(any(f in l for f in flaky) for l in failed):
        rc, tail, failed = suite()
    print("suite with change:", tail)
    suite_ok = rc == 0
    shutil.copy(demo, os.path.join(wt, "_demo.py"))
    d1 = subprocess.run(["/venv/bin/python", os.path.join(wt, "_demo.py")], env=env, capture_output=True, text=True, cwd=wt)
    print("demo with change: rc", d1.returncode, (d1.stdout + d1.stderr).strip().splitlines()[-1:] )
    subprocess.run(["git", "-C", wt, "checkout", "--", "src"], check=True)
    d2 = subprocess.run(["/venv/bin/python", os.path.join(wt, "_demo.py")], env=env, capture_output=True, text=True, cwd=wt)
    print("demo without change: rc", d2.returncode)
    ok = suite_ok and d1.returncode != 0 and d2.returncode == 0
    if ok:
        dst = os.path.join(ROOT, "seeded", name)
        os.makedirs(dst, exist_ok=True)
        shutil.copy(patch, os.path.join(dst, "patch.diff"))
        shutil.copy(demo, os.path.join(dst, "demo.py"))
        notes = os.path.join(src, f"notes{suffix}.md")
        if os.path.exists(notes):
            shutil.copy(notes, os.path.join(dst, "notes.md"))
        meta = {
            "property": prop,
            "breaks": f"property {prop}",
            "needs": needs,
            "written_by": "independent sub-agent given only the property text and a scratch worktree (nothing from /verif)",
            "confirmed": {
                "repo_commit": subprocess.run(["git", "-C", "/repo", "rev-parse", "--short", "HEAD"], capture_output=True, text=True).stdout.strip(),
                "suite_with_change": tail,
                "demo_with_change_rc": d1.returncode,
                "demo_without_change_rc": d2.returncode,
                "how": "tools/import_seed.py: scratch worktree of /repo HEAD, git apply patch.diff, pytest -n 8 (unedited suite), demo with change, git checkout -- src, demo again",
            },
        }
        json.dump(meta, open(os.path.join(dst, "meta.json"), "w"), indent=1)
        print("STORED", dst)
    else:
        print("NOT CONFIRMED: suite_ok", suite_ok, "demo_with", d1.returncode, "demo_without", d2.returncode)
finally:
    subprocess.run(["git", "-C", "/repo", "worktree", "remove", "--force", wt])
sys.exit(0 if ok else 1)
