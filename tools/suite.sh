#!/bin/bash
# Run the repository's own test suite on a snapshot of /repo HEAD (scratch worktree under /tmp, removed afterwards).
# usage: tools/suite.sh [pytest args]   -> log in /tmp/suite_<sha>.log
set -u
sha=$(git -C /repo rev-parse --short ${REV:-HEAD})
wt=/tmp/suite_$sha
rm -rf "$wt"; git -C /repo worktree prune
git -C /repo worktree add --detach -q "$wt" $sha || exit 2
cd "$wt"
PYTHONPATH="$wt/src" /venv/bin/python -m pytest -q -p no:cacheprovider --timeout=900 -n 8 "$@" > /tmp/suite_$sha.log 2>&1
rc=$?
tail -5 /tmp/suite_$sha.log
cd /
git -C /repo worktree remove --force "$wt"
echo "suite $sha rc=$rc"
exit $rc
