#!/venv/bin/python
import json,sys
for f in sys.argv[1:]:
    d=json.load(open(f))
    print("==",f); print(d["kind"]); print(d["detail"][:400])
    c=d["case"]
    if "log" in c:
        for r in c["log"]:
            if r["rule"]=="init":
                s=r["args"]["scn"]
                print(" ens",s.get("ensemble"),"n",len(s["atoms"]["symbols"]),"arrays",list(s["atoms"]["arrays"]),"cons",s["atoms"]["constraints"], "species", s.get("species",{}).get("symbols"), {k:v for k,v in s.items() if k not in ("atoms","entries","species")})
                for e in s.get("entries",[]): print("  entry",json.dumps(e)[:600])
            else: print(" ",r["rule"],json.dumps(r["args"]))
    else:
        print(json.dumps(c)[:1500])
