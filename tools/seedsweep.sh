#!/bin/bash
# Quiet-on-the-unchanged-tree sweep: every quick check at several VERIF_SEED values; summary in seedsweep_summary.txt
cd "$(dirname "$0")/.."
./setup.sh > /dev/null 2>&1
mkdir -p seedsweep_logs
: > seedsweep_summary.txt
for seed in ${SEEDS:-2 3 4 5 6 7}; do
  for id in ${IDS:-C01 C02 C03 C04 C05 C06 C07 C08 C09 C10 C11 C12 C13 C14 C15 C16 C17 C18 C19 C20}; do
    VERIF_SEED=$seed ./check $id --tier quick > seedsweep_logs/${id}_$seed.log 2>&1
    rc=$?
    if [ $rc -ne 0 ]; then echo "seed=$seed $id rc=$rc $(grep '^violation' seedsweep_logs/${id}_$seed.log | head -2 | cut -c1-300)" >> seedsweep_summary.txt; fi
  done
  echo "seed $seed done" >> seedsweep_summary.txt
done
echo DONE >> seedsweep_summary.txt
