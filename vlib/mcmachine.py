"""Shared rule-based state machine over the real Monte Carlo drivers.

A history is: one generated scenario (ensemble, atoms, calculator style, move table built from a
grammar with + and *), then rules "one trial of entry X with scripted outcome accept/reject/fail",
"pre-select a target", "multi-cycle step".  Trials are driven one step at a time through
`mc.irun(1)`; the verdict is scripted by a criteria double that evaluates the energy like a real
criteria would.  Property modules subclass `MCMachine` and implement the invariant hooks.
"""
from __future__ import annotations

import io
import traceback
import warnings

import numpy as np
from ase import Atoms
from hypothesis import strategies as st
from hypothesis.stateful import RuleBasedStateMachine, initialize, precondition, rule

from vlib import systems as S
from vlib.calcs import ModelCalc
from vlib.gen import fl

ENSEMBLES = ["Canonical", "HamiltonianCanonical", "Isobaric", "Isotension", "GrandCanonical"]
PAIR = {"k": 0.05, "a": 0.4, "s": 1.6, "b": 0.002, "z": 0.01}


# ------------------------------------------------------------------ doubles
def _scripted_criteria_class():
    from quansino.mc.criteria import BaseCriteria
    from quansino.registry import register_class

    class ScriptedCriteria(BaseCriteria):
        """Evaluates the energy like a shipped criteria, then returns the scripted verdict."""

        def __init__(self):
            self.queue = []
            self.calls = 0
            self.on_evaluate = None

        def evaluate(self, context):
            self.calls += 1
            if self.on_evaluate is not None:
                self.on_evaluate(context)
            context.atoms.get_potential_energy()
            return self.queue.pop(0) if self.queue else False

    register_class(ScriptedCriteria, "ScriptedCriteria")
    return ScriptedCriteria


_SC = None


def ScriptedCriteria():
    global _SC
    if _SC is None:
        _SC = _scripted_criteria_class()
    return _SC()


# ------------------------------------------------------------------ scenario strategy
@st.composite
def leaf_expr(draw, kind, n, molecular_labels=False, max_attempts=True, default_labels=False):
    # default_labels: also draw the documented `default_label` tunable of label-bearing moves
    e = {"t": kind}
    if kind in ("disp", "exch"):
        if molecular_labels and n >= 2 and draw(st.booleans()):
            # group atoms pairwise into molecules, with the occasional negative label
            labs = [(i // 2) if draw(st.integers(0, 6)) else -1 for i in range(n)]
            if not any(x >= 0 for x in labs):
                labs[0] = 0
        else:
            labs = draw(S.labels_st(n, ensure_nonneg=draw(st.integers(0, 7)) != 0))
        e["labels"] = labs
    if kind in ("disp", "exch") and default_labels:
        e["default_label"] = draw(st.sampled_from(["unset", "unset", None, -1, 0, 3]))
    if kind == "disp":
        e["op"] = draw(S.disp_op_desc())
    elif kind == "exch":
        e["op"] = draw(st.sampled_from([None, {"o": "Translation"}, {"o": "TranslationRotation"}]))
        e["bias"] = 0.5
    elif kind == "cell":
        e["op"] = draw(S.def_op_desc())
        e["scale_atoms"] = draw(st.booleans())
    elif kind == "hmc":
        e["dt"] = draw(fl(0.2, 2.0))
        e["steps"] = draw(st.integers(1, 6))
    if max_attempts:
        e["max_attempts"] = draw(st.integers(1, 4))
    return e


@st.composite
def entry_expr(draw, kinds, n, max_leaves=4, allow_reuse=True, max_exchange_occurrences=None, **leaf_kw):
    """A move expression over leaf kinds `kinds` built with + and * (random parenthesisation)."""
    n_leaves = draw(st.sampled_from([1, 1, 1, 2, 2, 3, 4][: 3 + max_leaves]))
    leaves = []
    for i in range(n_leaves):
        if allow_reuse and leaves and draw(st.integers(0, 5)) == 0:
            leaves.append(dict(draw(st.sampled_from(leaves))))
            continue
        k = draw(st.sampled_from(kinds))
        e = draw(leaf_expr(k, n, **leaf_kw))
        e["id"] = f"L{i}"
        leaves.append(e)
    # random binary tree over the leaves, with optional * on subtrees
    nodes = list(leaves)
    while len(nodes) > 1:
        i = draw(st.integers(0, len(nodes) - 2))
        l, r = nodes[i], nodes[i + 1]
        nodes[i:i + 2] = [{"t": "add", "l": l, "r": r}]
        if draw(st.integers(0, 4)) == 0:
            nodes[i] = {"t": "mul", "e": nodes[i], "n": draw(st.integers(1, 2))}
    expr = nodes[0]
    if draw(st.integers(0, 3)) == 0:
        expr = {"t": "mul", "e": expr, "n": draw(st.integers(1, 3))}
    excluded = 0
    if max_exchange_occurrences is not None and exchange_then_labelled(expr):
        # known-finding trigger: rebuild by construction as (other leaves) + (first exchange leaf) last
        others, first_exch, ids = [], None, set()
        for l in leaves:
            if l["t"] == "exch":
                first_exch = first_exch or l
            elif l["id"] not in ids:
                ids.add(l["id"])
                others.append(l)
        seq = others + [first_exch]
        expr = seq[0]
        for l in seq[1:]:
            expr = {"t": "add", "l": expr, "r": l}
        excluded = 1
    return expr, excluded


def exchange_then_labelled(expr):
    """Known-finding trigger: in leaf order, an exchange leaf is followed by another label-bearing leaf."""
    seen_exch = False
    for l in S.expr_leaves(expr):
        if l["t"] in ("exch", "disp") and seen_exch:
            return True
        if l["t"] == "exch":
            seen_exch = True
    return False


def allowed_leaf_kinds(ens):
    return {
        "Canonical": ["disp"],
        "HamiltonianCanonical": ["disp", "hmc"],
        "Isobaric": ["disp", "cell"],
        "Isotension": ["disp", "cell"],
        "GrandCanonical": ["disp", "exch"],
    }[ens]


@st.composite
def scenario(draw, ensembles=ENSEMBLES, calc_styles=("caching",), constraints=True, extra_arrays=True, logger=False,
             max_entries=3, exclude=(), default_labels=False, min_atoms=2, max_atoms=7, alias=False, energy_constraints=False):
    ens = draw(st.sampled_from(list(ensembles)))
    cons = ()
    if constraints:
        cons = ("FixAtoms",) if ens == "GrandCanonical" else ("FixAtoms", "FixCom")
        if ens == "GrandCanonical" and "fixatoms-deletion" in exclude:
            cons = ()
        if energy_constraints and ens != "GrandCanonical":
            cons = cons + ("Hookean",)
    calc_style = draw(st.sampled_from(list(calc_styles)))
    adesc = draw(S.atoms_desc(min_atoms=min_atoms, max_atoms=max_atoms, extra_arrays=extra_arrays, constraints=cons,
                              species=["Cu", "H", "O"] if calc_style == "emt" else None, separated=calc_style in ("emt", "lj"),
                              pbc_choices=((True, True, True),) if ens in ("Isobaric", "Isotension", "GrandCanonical") else ((True, True, True), (False, False, False))))
    n = len(adesc["symbols"])
    scn = {"ensemble": ens, "atoms": adesc, "seed": draw(st.integers(1, 2 ** 31)), "calc": calc_style,
           "logger": bool(logger and draw(st.booleans())), "excluded_known": 0}
    kinds = allowed_leaf_kinds(ens)
    entries = []
    for _ in range(draw(st.integers(1, max_entries))):
        if ens == "HamiltonianCanonical" and draw(st.booleans()):
            e = draw(leaf_expr("hmc", n))
            entries.append(e)
            continue
        leaf_kinds = [k for k in kinds if k != "hmc"]
        e, excl = draw(entry_expr(leaf_kinds, n, molecular_labels=True, default_labels=default_labels,
                                  max_exchange_occurrences=1 if "multi-exchange" in exclude else None))
        scn["excluded_known"] += excl
        entries.append(e)
    scn["entries"] = entries
    # table names in a generated, generally non-alphabetical order (the table order is state; names are not)
    scn["names"] = list(draw(st.permutations(["zeta", "alpha", "mid", "beta"])))
    if alias and draw(st.integers(0, 2)) == 0:
        scn["alias_of"] = draw(st.integers(0, len(entries) - 1))
    if alias and len(entries) > 1 and draw(st.integers(0, 2)) == 0:
        scn["share_disp"] = True  # displacement leaves with equal ids are one object across entries
    if ens == "GrandCanonical":
        scn["n_exchange"] = draw(st.integers(0, 4))
        if draw(st.booleans()):
            scn["species"] = {"symbols": ["Cu" if calc_style == "emt" else "Ar"], "positions": [[0.0, 0.0, 0.0]]}
        else:
            k = draw(st.integers(2, 3))
            scn["species"] = {"symbols": ["O"] + ["H"] * (k - 1), "positions": [[0.0, 0.0, 0.0]] + [[draw(fl(-1, 1)), draw(fl(-1, 1)), draw(fl(0.5, 1.0))] for _ in range(k - 1)]}
        if draw(st.integers(0, 2)) == 0:
            scn["species"]["momenta"] = [[draw(fl(-1, 1)) for _ in range(3)] for _ in scn["species"]["symbols"]]
    return scn


def make_calc(style, adesc):
    cell = np.array(adesc["cell"], dtype=float)
    params = dict(PAIR, center=tuple((0.5 * cell.sum(axis=0)).tolist()))
    if style == "emt":
        from ase.calculators.emt import EMT

        return EMT(), None
    if style == "lj":
        from ase.calculators.lj import LennardJones

        return LennardJones(sigma=2.0, epsilon=0.01, rc=4.0, smooth=True), None
    if style == "fast":
        # exact-equality cache (no 1e-15 tolerance): two-run comparisons stay bitwise even when a move
        # changes positions only at rounding level (whole-system shift undone by FixCom, rotation of one atom)
        from vlib.calcs import FastCalc

        return FastCalc("pair", params), params
    return ModelCalc("pair", params, style=style), params


def fresh_calc_like(style, adesc):
    return make_calc(style, adesc)[0]


def real_criteria_for(expr, ens):
    """The shipped criteria a user would pair with this entry in this ensemble."""
    from quansino.mc import criteria as K

    kinds = {l["t"] for l in S.expr_leaves(expr)}
    if "exch" in kinds:
        return K.GrandCanonicalCriteria()
    if "cell" in kinds:
        return K.IsotensionCriteria() if ens == "Isotension" else K.IsobaricCriteria()
    if "hmc" in kinds:
        return K.HamiltonianCanonicalCriteria()
    return K.CanonicalCriteria()


def build_simulation(scn, logfile=None, criteria="scripted", extra_kw=None, prebuilt_moves=None):
    """Build atoms + driver + table from a scenario description. Returns (mc, atoms, info)."""
    from quansino.mc import canonical, gcmc, isobaric, isotension

    atoms = S.build_atoms(scn["atoms"])
    calc, params = make_calc(scn["calc"], scn["atoms"])
    atoms.calc = calc
    ens = scn["ensemble"]
    kw = {"seed": scn["seed"], "max_cycles": scn.get("max_cycles", 1)}
    if logfile is not None:
        kw["logfile"] = logfile
    kw.update(extra_kw or {})
    T = scn.get("temperature", 300.0)
    with warnings.catch_warnings():
        warnings.simplefilter("ignore")
        if ens == "Canonical":
            mc = canonical.Canonical(atoms, temperature=T, **kw)
        elif ens == "HamiltonianCanonical":
            mc = canonical.HamiltonianCanonical(atoms, temperature=T, **kw)
        elif ens == "Isobaric":
            mc = isobaric.Isobaric(atoms, temperature=T, pressure=0.01, **kw)
        elif ens == "Isotension":
            mc = isotension.Isotension(atoms, temperature=T, pressure=0.01, external_stress=np.array(scn.get("external_stress", (np.eye(3) * 0.02).tolist()), dtype=float), **kw)
        else:
            sp = scn["species"]
            template = Atoms(sp["symbols"], positions=sp["positions"])
            if "momenta" in sp:
                template.set_momenta(sp["momenta"])
            template_before = (S.snapshot_atoms(template), template.positions.tobytes())
            mc = gcmc.GrandCanonical(atoms, exchange_atoms=template, temperature=T, chemical_potential=scn.get("mu", 0.0),
                                     number_of_exchange_particles=scn.get("n_exchange", 0), **kw)
        cache = {}
        crits = []
        for i, e in enumerate(scn["entries"]):
            if prebuilt_moves is not None:
                mv = prebuilt_moves[i]  # move objects that already served another simulation
            else:
                mv = S.build_move(e, {}, shared=(cache if scn.get("share_disp") else None))
            cr = ScriptedCriteria() if criteria == "scripted" else real_criteria_for(e, ens)
            kwm = {}
            if scn.get("table"):
                kwm = dict(zip(("interval", "probability", "minimum_count"), scn["table"][i]))
            mc.add_move(mv, criteria=cr, name=(scn["names"][i] if scn.get("names") else f"e{i}"), **kwm)
            crits.append(cr)
        if "alias_of" in scn:
            # the same move object listed under a second name
            cr = ScriptedCriteria() if criteria == "scripted" else real_criteria_for(scn["entries"][scn["alias_of"]], ens)
            first = list(mc.moves)[scn["alias_of"]]
            mc.add_move(mc.moves[first].move, criteria=cr, name=(scn["names"][len(scn["entries"])] if scn.get("names") else f"e{len(scn['entries'])}"))
            crits.append(cr)
    info = {"criteria": crits, "calc_params": params, "moves": [mc.moves[n].move for n in list(mc.moves)[: len(scn["entries"])]]}
    if ens == "GrandCanonical":
        info["template"], info["template_before"] = template, template_before
    return mc, atoms, info


# ------------------------------------------------------------------ the machine
class Stop(Exception):
    pass


class HistoryMachine(RuleBasedStateMachine):
    """Plumbing shared by every history machine: violation sink, JSON log, guarded execution."""

    sink = None
    PROP = "C00"

    def __init__(self):
        super().__init__()
        self.log = []
        self.labels = set()
        self.keys = set()
        self.viol = None
        self.dead = bool(self.sink is not None and self.sink.exhausted())
        self.mc = None
        self.excluded_known = 0

    def is_nontrivial(self):
        return False

    def distinct_key(self):
        return None

    def fail(self, kind, detail):
        if self.viol is None:
            self.viol = {"kind": kind, "detail": detail}
        self.dead = True
        if self.sink is not None:
            self.sink.on_violation(self, kind, detail)

    def case(self):
        return {"log": self.log}

    def outcome(self):
        try:
            nt = bool(self.is_nontrivial())
            key = self.distinct_key()
        except AttributeError:  # the history died while it was being built
            nt, key = bool(self.viol), None
        return {
            "violation": self.viol,
            "labels": sorted(self.labels),
            "nontrivial": nt,
            "keys": (sorted(self.keys) or None) if nt else None,
            "key": key,
            "excluded_known": getattr(self, "excluded_known", 0),
            "weight": 1,
            "discard": self.mc is None,
        }

    def guarded(self, where, fn, *a, **k):
        """Run code under test; an exception is a violation bucketed by (type, innermost quansino frame)."""
        try:
            with warnings.catch_warnings():
                warnings.simplefilter("ignore")
                return fn(*a, **k)
        except Stop:
            raise
        except Exception as exc:
            if type(exc).__name__ == "_Hit":
                raise
            tb = traceback.extract_tb(exc.__traceback__)
            frame = next((f for f in reversed(tb) if "/quansino/" in f.filename), tb[-1])
            loc = f"{frame.filename.split('/quansino/')[-1]}:{frame.name}"
            self.fail(f"exception:{type(exc).__name__}@{loc}", f"{where}: {type(exc).__name__}: {exc} (at {loc}:{frame.lineno})")
            raise Stop() from None

    def teardown(self):
        try:
            if self.mc is not None:
                self.mc.close()
        except Exception:
            pass
        if self.sink is not None:
            self.sink.finish(self)


class MCMachine(HistoryMachine):
    """Base machine. Subclasses set SCENARIO (a strategy) and override the hooks."""

    def __init__(self):
        super().__init__()
        self.history = []  # (entry name, verdict) for every trial
        self.pending_preselect = None
        self.n_trials = 0

    # ----- hooks
    def on_built(self):
        pass

    def before_move(self, name):
        return None

    def after_move(self, pre, name, verdict):
        pass

    def after_step(self):
        pass

    def adjust(self, name, outcome, direction):
        """Hook: let a property exclude a known-finding trigger by construction (count it)."""
        return outcome, direction

    def allow_preselect(self, name, move, what):
        return True

    # ----- plumbing
    def _do_init(self, scn):
        if self.dead:
            return
        self.log.append({"rule": "init", "args": {"scn": scn}})
        self.scn = scn
        self.excluded_known = scn.get("excluded_known", 0)
        self.logbuf = io.StringIO() if scn.get("logger") else None
        try:
            self.mc, self.atoms, self.info = self.guarded("build", build_simulation, scn, self.logbuf)
            self.labels.add("ens:" + scn["ensemble"])
            self.labels.add("calc:" + scn["calc"])
            self.on_built()
        except Stop:
            pass

    def entry_names(self):
        return list(self.mc.moves)

    def entry_index(self, name):
        return list(self.mc.moves).index(name)

    def entry_expr(self, name):
        i = self.entry_index(name)
        ents = self.scn["entries"]
        return ents[i] if i < len(ents) else ents[self.scn["alias_of"]]

    def elementary(self, name):
        return S.elementary_moves(self.mc.moves[name].move)

    def _configure(self, name, outcome, direction, k):
        """Configure the scripted outcome of the move about to run. Returns an undo list."""
        undo = []
        storage = self.mc.moves[name]
        crit = storage.criteria
        crit.queue = [outcome == "accept"]
        movs = self.elementary(name)
        comps = []

        def rec(m):
            if isinstance(getattr(m, "moves", None), list):
                comps.append(m)
                for s in m.moves:
                    rec(s)

        rec(storage.move)
        for m in movs + comps:
            if hasattr(m, "bias_towards_insert"):
                old = m.bias_towards_insert
                m.bias_towards_insert = 1.0 if direction == "ins" else 0.0
                undo.append((m, "bias_towards_insert", old))
        if outcome == "fail":
            for m in movs:
                if hasattr(m, "check_move"):
                    old = m.check_move
                    m.check_move = lambda *_a, **_k: False
                    undo.append((m, "check_move", old))
        return undo

    def _run_step(self, plan):
        """plan: list of (entry name, outcome, direction, k) - one per cycle of this step."""
        mc = self.mc
        names = self.entry_names()
        mc.max_cycles = len(plan)

        def select(nm):
            for other in names:
                mc.moves[other].probability = 1.0 if other == nm else 0.0

        select(plan[0][0])
        state = {"i": 0, "pre": None, "undo": [], "name": None}

        def finish_move():
            if state["name"] is None:
                return
            for obj, attr, old in state["undo"]:
                setattr(obj, attr, old)
            idx = state["i"] - 1
            verdict = mc.move_history[idx][1] if idx < len(mc.move_history) else "missing"
            self.history.append((state["name"], verdict))
            self.n_trials += 1
            self.labels.add({True: "verdict:accept", False: "verdict:reject", None: "verdict:fail"}.get(verdict, "verdict:?"))
            self.after_move(state["pre"], state["name"], verdict)
            state["name"] = None

        def body():
            for step in mc.irun(1):
                for name in step:
                    finish_move()
                    i = state["i"]
                    if i >= len(plan) or name != plan[i][0]:
                        # scheduling gave another entry (only possible if weights are ignored): not this property's concern
                        self.labels.add("unexpected-schedule")
                        pl = (name, "reject", "ins", 0)
                    else:
                        pl = plan[i]
                    oc, dr = self.adjust(name, pl[1], pl[2])
                    state["undo"] = self._configure(name, oc, dr, pl[3])
                    state["pre"] = self.before_move(name)
                    state["name"] = name
                    state["i"] = i + 1
                    if state["i"] < len(plan):
                        select(plan[state["i"]][0])
                finish_move()

        try:
            self.guarded("step", body)
            if not self.dead:
                self.after_step()
        except Stop:
            pass
        finally:
            for obj, attr, old in state["undo"]:
                try:
                    setattr(obj, attr, old)
                except Exception:
                    pass

    # ----- rules
    @rule(entry=st.integers(0, 3), outcome=st.sampled_from(["accept", "reject", "reject", "fail"]), direction=st.sampled_from(["ins", "del"]), k=st.integers(0, 1000))
    def trial(self, entry, outcome, direction, k):
        if self.dead or self.mc is None:
            return
        self.log.append({"rule": "trial", "args": {"entry": entry, "outcome": outcome, "direction": direction, "k": k}})
        names = self.entry_names()
        self._run_step([(names[entry % len(names)], outcome, direction, k)])

    @rule(plan=st.lists(st.tuples(st.integers(0, 3), st.sampled_from(["accept", "reject", "fail"]), st.sampled_from(["ins", "del"])), min_size=2, max_size=4))
    def multi_cycle(self, plan):
        if self.dead or self.mc is None:
            return
        plan = [list(p) for p in plan]
        self.log.append({"rule": "multi_cycle", "args": {"plan": plan}})
        names = self.entry_names()
        self.labels.add("multi-cycle")
        self._run_step([(names[e % len(names)], o, d, 0) for e, o, d in plan])

    @rule(what=st.sampled_from(["momenta", "positions", "cell"]), which=st.integers(0, 10), vec=st.lists(st.sampled_from([-0.07, -0.02, 0.0, 0.03, 0.05, 0.11]), min_size=3, max_size=3))
    def external_edit(self, what, which, vec):
        """The user changes the atoms between two run calls (every trial of this machine is its own `irun(1)`):
        the state 'before the next trial' is then the edited one.  Only machines that opt in (EXTERNAL_EDITS)."""
        if self.dead or self.mc is None or not getattr(self, "EXTERNAL_EDITS", False) or len(self.atoms) == 0:
            return
        self.log.append({"rule": "external_edit", "args": {"what": what, "which": which, "vec": vec}})
        v = np.array(vec, dtype=float)
        i = which % len(self.atoms)
        with warnings.catch_warnings():
            warnings.simplefilter("ignore")
            if what == "momenta":
                p = self.atoms.get_momenta() + 0.0
                p[i] += 10.0 * v
                self.atoms.set_momenta(p)
            elif what == "positions":
                q = self.atoms.get_positions()
                q[i] += v
                self.atoms.set_positions(q)
            elif self.scn["ensemble"] in ("Isobaric", "Isotension"):
                c = self.atoms.cell.array.copy()
                c[i % 3] *= 1.0 + v[0]
                self.atoms.set_cell(c, scale_atoms=False)
            else:
                return
        self.labels.add("external-edit:" + what)

    @rule(entry=st.integers(0, 3), which=st.integers(0, 10), k=st.integers(0, 1000), what=st.sampled_from(["displace", "delete", "add"]))
    def preselect(self, entry, which, k, what):
        """Pre-select the target of an elementary move before the next trial (documented attributes)."""
        if self.dead or self.mc is None:
            return
        self.log.append({"rule": "preselect", "args": {"entry": entry, "which": which, "k": k, "what": what}})
        names = self.entry_names()
        name = names[entry % len(names)]
        movs = self.elementary(name)
        m = movs[which % len(movs)]
        top = self.mc.moves[name].move
        if isinstance(getattr(top, "moves", None), list) and type(top).__name__ != "CompositeMove":
            return  # specialised composites document that they select targets themselves
        if not self.allow_preselect(name, m, what):
            return
        if what == "displace" and hasattr(m, "to_displace_labels") and not hasattr(m, "to_delete_label"):
            if len(m.unique_labels):
                m.to_displace_labels = int(m.unique_labels[k % len(m.unique_labels)])
                self.labels.add("preselect:displace")
        elif what == "delete" and hasattr(m, "to_delete_label"):
            if len(m.unique_labels):
                m.to_delete_label = int(m.unique_labels[k % len(m.unique_labels)])
                self.labels.add("preselect:delete")
        elif what == "add" and hasattr(m, "to_add_atoms"):
            m.to_add_atoms = self.mc.exchange_atoms.copy()
            self.labels.add("preselect:add")


def specialise(base, sink, scenario_strategy):
    """Create the concrete machine class for one run (sink + scenario strategy bound)."""

    class M(base):
        pass

    M.sink = sink

    @initialize(scn=scenario_strategy)
    def init(self, scn):
        self._do_init(scn)

    M.init = init
    M.__name__ = base.__name__ + "Run"
    M.__qualname__ = M.__name__
    return M


class ReplaySink:
    def __init__(self):
        self.raise_kind = None

    def exhausted(self):
        return False

    def on_violation(self, machine, kind, detail):
        pass

    def finish(self, machine):
        pass


def replay_log(base, case):
    """Re-apply a logged history through the same rule bodies, bypassing Hypothesis."""
    M = type(base.__name__ + "Replay", (base,), {})
    M.sink = ReplaySink()
    m = M()
    for rec in case["log"]:
        if rec["rule"] == "init":
            m._do_init(rec["args"]["scn"])
        else:
            getattr(m, rec["rule"])(**rec["args"])
        if m.dead:
            break
    m.teardown()
    return m.outcome()
