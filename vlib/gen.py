"""Small strategy helpers shared by the property modules."""
from __future__ import annotations

import numpy as np
from hypothesis import strategies as st


def fl(lo, hi, **kw):
    """Floats in [lo, hi] of width 32 (short reprs, good shrinking); bounds rounded inward to float32."""
    lo32 = float(np.float32(lo))
    if lo32 < lo:
        lo32 = float(np.nextafter(np.float32(lo32), np.float32(np.inf)))
    hi32 = float(np.float32(hi))
    if hi32 > hi:
        hi32 = float(np.nextafter(np.float32(hi32), np.float32(-np.inf)))
    return st.floats(lo32, hi32, allow_nan=False, allow_infinity=False, width=32, **kw)


def log10_floats(lo, hi):
    return fl(lo, hi).map(lambda x: float(10.0 ** x))
