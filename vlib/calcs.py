"""Calculators supplied by the harness.

All energies are pure functions of (positions, cell, numbers) with a fixed summation order, so
two executions can be compared bitwise.  `ModelCalc` is a real `ase.calculators.calculator.Calculator`
(standard result cache / check_state / reset); `FastCalc` is a duck-typed lean calculator for long
chains; `ConstCalc` returns prescribed numbers.
"""
from __future__ import annotations

import numpy as np
from ase.calculators.calculator import Calculator, all_changes


def model_energy_forces(kind, positions, cell, numbers, p):
    """Energy/forces of the analytic models. `p` is a dict of parameters."""
    pos = np.asarray(positions, dtype=float)
    n = len(pos)
    e = 0.0
    f = np.zeros((n, 3))
    if kind == "ideal":
        return 0.0, f
    if kind in ("harmonic", "pair", "quartic"):
        k = p.get("k", 1.0)
        c = np.asarray(p.get("center", (0.0, 0.0, 0.0)), dtype=float)
        kvec = np.asarray(p.get("kvec", (1.0, 1.0, 1.0)), dtype=float) * k
        d = pos - c
        for i in range(n):  # fixed summation order
            e += 0.5 * float(kvec[0] * d[i, 0] ** 2 + kvec[1] * d[i, 1] ** 2 + kvec[2] * d[i, 2] ** 2)
        f -= d * kvec
    if kind == "quartic":
        q = p.get("q", 0.1)
        c = np.asarray(p.get("center", (0.0, 0.0, 0.0)), dtype=float)
        d = pos - c
        for i in range(n):
            e += q * float(d[i, 0] ** 4 + d[i, 1] ** 4 + d[i, 2] ** 4)
        f -= 4 * q * d ** 3
    if kind == "pair":
        a = p.get("a", 0.5)
        s2 = p.get("s", 1.5) ** 2
        for i in range(n):
            for j in range(i + 1, n):
                rij = pos[i] - pos[j]
                r2 = float(rij[0] ** 2 + rij[1] ** 2 + rij[2] ** 2)
                w = a * np.exp(-r2 / s2)
                e += float(w)
                g = (2.0 * w / s2) * rij
                f[i] += g
                f[j] -= g
        b = p.get("b", 0.0)
        if b:
            cc = np.asarray(cell, dtype=float)
            e += b * float(np.sum(cc * cc))
        z = p.get("z", 0.0)
        if z:
            e += z * float(np.sum(np.asarray(numbers, dtype=float)))
    if kind == "dipole":
        # charges +q on even indices of each pair, -q on odd; field along +z
        q = p.get("q", 1.0)
        field = p.get("field", 1.0)
        for i in range(n):
            sgn = 1.0 if i % 2 == 0 else -1.0
            e += -sgn * q * field * float(pos[i, 2])
            f[i, 2] += sgn * q * field
    if kind == "constforce":
        fo = np.asarray(p["forces"], dtype=float)
        m = min(len(fo), n)
        f[:m] = fo[:m]
        e = 0.0
    return float(e), f


class ModelCalc(Calculator):
    """ASE-conformant calculator with analytic energies.

    style: "caching"   - ASE default behaviour (results cached against self.atoms)
           "stateless" - recomputes on every request
           "peratom"   - keeps an internal per-atom buffer that is re-sized only when
                         'numbers' is among the reported system changes (the EMT/LJ idiom)
    """

    implemented_properties = ["energy", "forces", "free_energy"]

    def __init__(self, kind="harmonic", params=None, style="caching", committee=None, **kwargs):
        super().__init__(**kwargs)
        self.kind = kind
        self.params = dict(params or {})
        self.style = style
        self.n_calculate = 0
        self.committee = committee
        self._buf = None

    def check_state(self, atoms, tol=1e-15):
        if self.style == "stateless":
            return list(all_changes)
        return super().check_state(atoms, tol)

    def calculate(self, atoms=None, properties=("energy",), system_changes=all_changes):
        super().calculate(atoms, properties, system_changes)
        self.n_calculate += 1
        if self.style == "peratom":
            if "numbers" in system_changes or self._buf is None:
                self._buf = np.zeros((len(self.atoms), 3))
            self._buf[:] = self.atoms.positions  # raises on a stale size, like EMT/LJ would
        e, f = model_energy_forces(self.kind, self.atoms.positions, self.atoms.cell.array, self.atoms.numbers, self.params)
        self.results = {"energy": e, "free_energy": e, "forces": f}
        if self.style == "smeared":
            # like a DFT code with electronic smearing: the force-consistent free energy is another number than the
            # (extrapolated) energy that ASE's get_potential_energy() returns by default
            self.results["free_energy"] = e - 0.05 - 0.013 * float(np.sin(self.atoms.positions.sum()))
        if self.committee:
            # deterministic committee: member m scales the forces/energy by (1 + c_m)
            cs = np.asarray(self.committee, dtype=float)
            self.results["forces_comm"] = np.array([f * (1.0 + c) + c for c in cs])
            self.results["energies"] = np.array([e * (1.0 + c) + c for c in cs])


def fresh_energy(atoms, kind, params):
    e, _ = model_energy_forces(kind, atoms.positions, atoms.cell.array, atoms.numbers, params)
    return e


class _Snap:
    __slots__ = ("positions", "cell", "numbers")


class FastCalc:
    """Lean duck-typed calculator exposing what quansino touches: results, atoms,
    get_potential_energy, get_forces (plus calculation_required for ASE helpers)."""

    def __init__(self, kind="harmonic", params=None):
        self.kind = kind
        self.params = dict(params or {})
        self.results = {}
        self.atoms = None
        self.n_calculate = 0

    def _fresh(self, atoms):
        s = self.atoms
        if s is None or not self.results:
            return False
        try:
            return (
                len(s.numbers) == len(atoms.numbers)
                and np.array_equal(s.positions, atoms.positions)
                and np.array_equal(np.asarray(s.cell), atoms.cell.array)
                and np.array_equal(s.numbers, atoms.numbers)
            )
        except Exception:
            return False

    def _ensure(self, atoms):
        if not self._fresh(atoms):
            self.n_calculate += 1
            snap = _Snap()
            snap.positions = atoms.positions.copy()
            snap.cell = atoms.cell.array.copy()
            snap.numbers = atoms.numbers.copy()
            self.atoms = snap
            e, f = model_energy_forces(self.kind, snap.positions, snap.cell, snap.numbers, self.params)
            self.results = {"energy": e, "free_energy": e, "forces": f}

    def get_potential_energy(self, atoms=None, force_consistent=False):
        self._ensure(atoms)
        return self.results["energy"]

    def get_forces(self, atoms=None):
        self._ensure(atoms)
        return self.results["forces"].copy()

    def calculation_required(self, atoms, properties):
        return not self._fresh(atoms)

    def get_property(self, name, atoms=None, allow_calculation=True):
        self._ensure(atoms)
        return self.results[name]


class ConstCalc:
    """Returns a prescribed potential energy whatever the configuration."""

    def __init__(self, energy):
        self.energy = energy
        self.results = {"energy": energy}
        self.atoms = None

    def get_potential_energy(self, atoms=None, force_consistent=False):
        return self.energy

    def get_forces(self, atoms=None):
        return np.zeros((len(atoms), 3))

    def calculation_required(self, atoms, properties):
        return False
