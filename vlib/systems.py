"""Generators (Hypothesis strategies -> JSON descriptions) and builders for Atoms, cells, extra
per-atom arrays, constraints, operations and move expressions.  Descriptions are plain JSON so that
a failing history is a replayable file."""
from __future__ import annotations

import numpy as np
from ase import Atoms
from ase.constraints import FixAtoms, FixCom
from hypothesis import strategies as st

from vlib.gen import fl

SPECIES = ["Ar", "Cu", "H", "O", "Ne"]


# ------------------------------------------------------------------ atoms
@st.composite
def cell_desc(draw, lo=5.0, hi=9.0, triclinic=True):
    a, b, c = draw(fl(lo, hi)), draw(fl(lo, hi)), draw(fl(lo, hi))
    m = np.diag([a, b, c]).astype(float)
    if triclinic and draw(st.booleans()):
        m[1, 0] = draw(fl(-0.3, 0.3)) * a
        m[2, 0] = draw(fl(-0.3, 0.3)) * a
        m[2, 1] = draw(fl(-0.3, 0.3)) * b
    return m.tolist()


@st.composite
def atoms_desc(draw, min_atoms=2, max_atoms=8, species=None, extra_arrays=True, constraints=("FixAtoms", "FixCom"),
               pbc_choices=((True, True, True), (True, True, False), (False, False, False)), triclinic=True, cell=None, separated=False):
    n = draw(st.integers(min_atoms, max_atoms))
    sp = species or draw(st.lists(st.sampled_from(SPECIES), min_size=1, max_size=3, unique=True))
    symbols = [draw(st.sampled_from(sp)) for _ in range(n)]
    cellm = cell if cell is not None else draw(cell_desc(triclinic=triclinic))
    if separated:
        # distinct sites of a 3x3x3 grid plus a small jitter: no two atoms coincide (needed by EMT / LJ, whose
        # energies are not finite for coinciding atoms), by construction rather than by rejection
        sites = draw(st.lists(st.integers(0, 26), min_size=n, max_size=n, unique=True))
        frac = [[((s // 9) + 0.5 + draw(fl(-0.15, 0.15))) / 3.0, (((s // 3) % 3) + 0.5 + draw(fl(-0.15, 0.15))) / 3.0, ((s % 3) + 0.5 + draw(fl(-0.15, 0.15))) / 3.0] for s in sites]
    else:
        frac = [[draw(fl(0.05, 0.95)) for _ in range(3)] for _ in range(n)]
    pos = (np.array(frac) @ np.array(cellm)).tolist() if n else []
    desc = {"symbols": symbols, "positions": pos, "cell": cellm, "pbc": list(draw(st.sampled_from(list(pbc_choices)))), "arrays": {}, "constraints": []}
    if extra_arrays and n:
        kinds = draw(st.lists(st.sampled_from(["tags", "momenta", "initial_charges", "initial_magmoms", "custom_f", "custom_i", "masses"]), max_size=4, unique=True))
        for k in kinds:
            if k == "tags":
                desc["arrays"]["tags"] = [draw(st.integers(0, 5)) for _ in range(n)]
            elif k == "momenta":
                desc["arrays"]["momenta"] = [[draw(fl(-2, 2)) for _ in range(3)] for _ in range(n)]
            elif k == "initial_charges":
                desc["arrays"]["initial_charges"] = [draw(fl(-1, 1)) for _ in range(n)]
            elif k == "initial_magmoms":
                desc["arrays"]["initial_magmoms"] = [draw(fl(-2, 2)) for _ in range(n)]
            elif k == "custom_f":
                desc["arrays"]["custom_f"] = [[[draw(fl(-1, 1)) for _ in range(2)] for _ in range(2)] for _ in range(n)]
            elif k == "custom_i":
                desc["arrays"]["custom_i"] = [draw(st.integers(-100, 100)) for _ in range(n)]
            elif k == "masses":
                desc["arrays"]["masses"] = [draw(fl(1, 200)) for _ in range(n)]
    if constraints and n >= 2:
        ck = draw(st.sampled_from([None, None] + list(constraints)))
        if ck == "FixAtoms":
            idx = draw(st.lists(st.integers(0, n - 1), min_size=1, max_size=max(1, n - 1), unique=True))
            # "split": the same atoms fixed by two separate FixAtoms objects (indices[:split] and indices[split:])
            desc["constraints"].append({"kind": "FixAtoms", "indices": sorted(idx), "split": draw(st.integers(0, len(idx)))})
        elif ck == "FixCom":
            desc["constraints"].append({"kind": "FixCom"})
        elif ck == "Hookean":
            # an energy-bearing constraint: atoms.get_potential_energy() includes its spring energy
            i = draw(st.integers(0, n - 2))
            desc["constraints"].append({"kind": "Hookean", "a1": i, "a2": i + 1, "rt": draw(fl(0.5, 2.0)), "k": draw(fl(0.5, 5.0))})
    return desc


def build_atoms(desc) -> Atoms:
    atoms = Atoms(desc["symbols"], positions=np.array(desc["positions"], dtype=float).reshape(-1, 3), cell=np.array(desc["cell"], dtype=float), pbc=desc["pbc"])
    for name, val in desc.get("arrays", {}).items():
        if name == "tags":
            atoms.set_tags(val)
        elif name == "momenta":
            atoms.set_momenta(np.array(val, dtype=float), apply_constraint=False)
        elif name == "initial_charges":
            atoms.set_initial_charges(val)
        elif name == "initial_magmoms":
            atoms.set_initial_magnetic_moments(val)
        elif name == "masses":
            atoms.set_masses(val)
        elif name == "custom_f":
            atoms.set_array("custom_f", np.array(val, dtype=float))
        elif name == "custom_i":
            atoms.set_array("custom_i", np.array(val, dtype=np.int32))
    cons = []
    for c in desc.get("constraints", []):
        if c["kind"] == "FixAtoms":
            k = int(c.get("split") or 0)
            if 0 < k < len(c["indices"]):
                cons.append(FixAtoms(indices=list(c["indices"][:k])))
                cons.append(FixAtoms(indices=list(c["indices"][k:])))
            else:
                cons.append(FixAtoms(indices=list(c["indices"])))
        elif c["kind"] == "FixCom":
            cons.append(FixCom())
        elif c["kind"] == "Hookean":
            from ase.constraints import Hookean

            cons.append(Hookean(a1=c["a1"], a2=c["a2"], rt=c["rt"], k=c["k"]))
    if cons:
        atoms.set_constraint(cons)
    return atoms


def snapshot_atoms(atoms) -> dict:
    """Byte-level picture of an Atoms object (arrays, cell, pbc, constraints)."""
    arrays = {}
    for k, v in atoms.arrays.items():
        a = np.ascontiguousarray(v)
        arrays[k] = (str(a.dtype), a.shape, a.tobytes())
    cons = []
    for c in atoms.constraints:
        d = c.todict()
        cons.append(repr(sorted((k, repr(np.asarray(v).tolist()) if not isinstance(v, dict) else repr({kk: np.asarray(vv).tolist() for kk, vv in sorted(v.items())})) for k, v in d.items())))
    return {"n": len(atoms), "arrays": arrays, "cell": atoms.cell.array.tobytes(), "pbc": tuple(bool(x) for x in atoms.pbc), "constraints": cons}


ZERO_DEFAULT_ARRAYS = {"momenta", "tags", "initial_charges", "initial_magmoms"}


def diff_snapshots(a: dict, b: dict, atoms_after=None) -> list[str]:
    """Differences between two snapshots. Arrays absent before and present after as the ASE default
    (all zeros for momenta/tags/initial charges/magmoms, standard masses) are observationally identical
    through the ASE getters and are not reported."""
    out = []
    if a["n"] != b["n"]:
        out.append(f"atom count {a['n']} -> {b['n']}")
    for k in sorted(set(a["arrays"]) | set(b["arrays"])):
        va, vb = a["arrays"].get(k), b["arrays"].get(k)
        if va is None and vb is not None:
            arr = np.frombuffer(vb[2], dtype=vb[0]).reshape(vb[1])
            if k in ZERO_DEFAULT_ARRAYS and not np.any(arr):
                continue
            if k == "masses" and atoms_after is not None:
                from ase.data import atomic_masses

                if np.array_equal(arr, atomic_masses[atoms_after.numbers]):
                    continue
            out.append(f"array '{k}' appeared")
        elif va is not None and vb is None:
            out.append(f"array '{k}' disappeared")
        elif va != vb:
            if va[0] != vb[0]:
                out.append(f"array '{k}' dtype {va[0]} -> {vb[0]}")
            elif va[1] != vb[1]:
                out.append(f"array '{k}' shape {va[1]} -> {vb[1]}")
            else:
                x = np.frombuffer(va[2], dtype=va[0]).reshape(va[1])
                y = np.frombuffer(vb[2], dtype=vb[0]).reshape(vb[1])
                rows = sorted(set(np.argwhere(x != y)[:, 0].tolist())) if x.ndim else []
                out.append(f"array '{k}' changed in rows {rows[:8]}")
    if a["cell"] != b["cell"]:
        out.append("cell changed")
    if a["pbc"] != b["pbc"]:
        out.append("pbc changed")
    if a["constraints"] != b["constraints"]:
        out.append(f"constraints changed: {a['constraints']} -> {b['constraints']}")
    return out


# ------------------------------------------------------------------ operations
DISP_OPS = ["Ball", "Box", "Sphere", "Translation", "Rotation", "TranslationRotation"]
DEF_OPS = ["IsotropicDeformation", "AnisotropicDeformation", "ShapeDeformation"]


@st.composite
def disp_op_desc(draw, kinds=DISP_OPS, depth=1):
    choices = list(kinds) + (["comp"] if depth > 0 else [])
    k = draw(st.sampled_from(choices))
    if k == "comp":
        small = [x for x in kinds if x in ("Ball", "Box", "Sphere")] or list(kinds)
        return {"o": "comp", "ops": draw(st.lists(disp_op_desc(kinds=small, depth=0), min_size=1, max_size=3))}
    if k in ("Ball", "Box", "Sphere"):
        return {"o": k, "s": draw(fl(0.05, 1.0))}
    return {"o": k}


@st.composite
def def_op_desc(draw, masks=True):
    k = draw(st.sampled_from(DEF_OPS))
    d = {"o": k, "v": draw(fl(0.005, 0.08))}
    if masks and draw(st.integers(0, 3)) == 0:
        m = [[draw(st.booleans()) for _ in range(3)] for _ in range(3)]
        sym = draw(st.booleans())  # any 3x3 boolean mask is accepted; symmetric ones are the common case
        for i in range(3):
            m[i][i] = True
            for j in range(i):
                if sym:
                    m[i][j] = m[j][i]
        d["mask"] = m
    return d


def build_op(d):
    from quansino.operations import cell as oc
    from quansino.operations import displacement as od
    from quansino.operations.composite import CompositeOperation

    k = d["o"]
    if k == "comp":
        return CompositeOperation([build_op(x) for x in d["ops"]])
    if k in ("Ball", "Box", "Sphere"):
        return getattr(od, k)(d["s"])
    if k in ("Translation", "Rotation", "TranslationRotation"):
        return getattr(od, k)()
    if k in DEF_OPS:
        mask = np.array(d["mask"], dtype=bool) if "mask" in d else None
        return getattr(oc, k)(d["v"], mask)
    raise ValueError(k)


# ------------------------------------------------------------------ move expressions
def labels_st(n, lo=-2, hi=5, ensure_nonneg=True):
    base = st.lists(st.integers(lo, hi), min_size=n, max_size=n)
    if ensure_nonneg and n:
        return base.map(lambda ls: ls if any(x >= 0 for x in ls) else [0] + ls[1:])
    return base


def expr_leaves(e):
    """Ordered leaves (with multiplicity) of a move expression."""
    if e["t"] == "add":
        return expr_leaves(e["l"]) + expr_leaves(e["r"])
    if e["t"] == "mul":
        return expr_leaves(e["e"]) * e["n"]
    return [e]


def build_move(e, cache=None, shared=None):
    """Build a move from an expression; leaves carry an 'id' so the same object can be reused.
    `cache` is local to one table entry; `shared` (optional) lets displacement leaves with the same id be one
    object across entries (a move used both inside a composite entry and as an entry of its own)."""
    from quansino.integrators.displacement import Verlet
    from quansino.moves.cell import CellMove
    from quansino.moves.displacement import DisplacementMove, HamiltonianDisplacementMove
    from quansino.moves.exchange import ExchangeMove

    cache = {} if cache is None else cache
    t = e["t"]
    if t == "add":
        return build_move(e["l"], cache, shared) + build_move(e["r"], cache, shared)
    if t == "mul":
        return build_move(e["e"], cache, shared) * e["n"]
    if "id" in e and e["id"] in cache:
        return cache[e["id"]]
    if shared is not None and t == "disp" and e.get("id") in shared:
        cache[e["id"]] = shared[e["id"]]
        return shared[e["id"]]
    if t == "disp":
        if e.get("apply_constraints", True) is False:
            m = DisplacementMove(np.array(e["labels"], dtype=int), build_op(e["op"]), apply_constraints=False)
        else:
            m = DisplacementMove(np.array(e["labels"], dtype=int), build_op(e["op"]))
    elif t == "exch":
        m = ExchangeMove(np.array(e["labels"], dtype=int), build_op(e["op"]) if e.get("op") else None, bias_towards_insert=e.get("bias", 0.5))
    elif t == "cell":
        m = CellMove(build_op(e["op"]), scale_atoms=e.get("scale_atoms", True))
    elif t == "hmc":
        if e.get("forced"):
            from functools import partial

            from quansino.utils.dynamics import maxwell_boltzmann_distribution

            m = HamiltonianDisplacementMove(distribution=partial(maxwell_boltzmann_distribution, forced=True), operation=Verlet(dt=e["dt"], max_steps=e["steps"]))
        else:
            m = HamiltonianDisplacementMove(operation=Verlet(dt=e["dt"], max_steps=e["steps"]))
    else:
        raise ValueError(t)
    if "max_attempts" in e:
        m.max_attempts = e["max_attempts"]
    if e.get("default_label", "unset") != "unset" and hasattr(m, "default_label"):
        m.default_label = e["default_label"]
    if "id" in e:
        cache[e["id"]] = m
        if shared is not None and t == "disp":
            shared[e["id"]] = m
    return m


def elementary_moves(move):
    """All elementary (non-composite) move objects inside a move, unique by identity, in order."""
    out, seen = [], set()

    def rec(m):
        subs = getattr(m, "moves", None)
        if isinstance(subs, list):
            for s in subs:
                rec(s)
        elif id(m) not in seen:
            seen.add(id(m))
            out.append(m)

    rec(move)
    return out
