"""Runner: plans the units of one property check, runs them on a process pool, merges
their counters, applies the known-findings file, writes evidence and replay files and
prints the VIOLATION / KNOWN-FINDING lines.

Contract of a property module ``props.cNN``::

    ID, LEVEL, RULE, ASSUMPTIONS, TECHNIQUE
    plan(tier) -> [ {"part": str, "shards": int, "budget": {...}} , ... ]
    run_part(part, seed, shard, nshards, budget) -> unit result (see ``empty_result``)
    replay(part, case) -> outcome  ({"violation": None | {"kind","detail"}, ...})
    KNOWN = { key: {"text": str, "match": callable(part, kind, case) -> bool} }   (optional)
"""
from __future__ import annotations

import argparse
import hashlib
import importlib
import json
import os
import sys
import time
import traceback
from collections import Counter
from concurrent.futures import ProcessPoolExecutor, as_completed
from multiprocessing import get_context

import numpy as np

ROOT = os.path.dirname(os.path.dirname(os.path.abspath(__file__)))


def emit(*args):
    """print that survives a consumer closing the pipe early (the exit status must stay meaningful)."""
    try:
        print(*args, flush=True)
    except BrokenPipeError:
        try:
            sys.stdout = open(os.devnull, "w")
        except OSError:
            pass


# --------------------------------------------------------------------------- helpers
def jsonable(obj):
    """Convert numpy scalars/arrays, tuples, sets recursively into JSON types."""
    if isinstance(obj, dict):
        return {str(k): jsonable(v) for k, v in obj.items()}
    if isinstance(obj, (list, tuple)):
        return [jsonable(v) for v in obj]
    if isinstance(obj, (set, frozenset)):
        return sorted(jsonable(v) for v in obj)
    if isinstance(obj, np.ndarray):
        return jsonable(obj.tolist())
    if isinstance(obj, (np.bool_,)):
        return bool(obj)
    if isinstance(obj, np.integer):
        return int(obj)
    if isinstance(obj, np.floating):
        return float_json(float(obj))
    if isinstance(obj, float):
        return float_json(obj)
    if isinstance(obj, (str, int, bool)) or obj is None:
        return obj
    return repr(obj)


def float_json(x: float):
    if x != x:
        return "nan"
    if x in (float("inf"), float("-inf")):
        return "inf" if x > 0 else "-inf"
    return x


def derive_seed(*parts) -> int:
    h = hashlib.sha256("/".join(str(p) for p in parts).encode()).digest()
    return int.from_bytes(h[:8], "big") >> 1


def case_hash(case) -> str:
    return hashlib.sha256(json.dumps(jsonable(case), sort_keys=True).encode()).hexdigest()[:16]


def empty_result() -> dict:
    return {
        "evaluations": 0,
        "nontrivial_keys": [],
        "classes": {},
        "samples": [],
        "violations": [],
        "excluded_known": 0,
        "notes": [],
        "inconclusive": 0,
        "stopped_early": 0,
    }


def merge_into(total: dict, unit: dict) -> None:
    total["evaluations"] += int(unit.get("evaluations", 0))
    total["nontrivial_keys"].update(unit.get("nontrivial_keys", []))
    for k, v in unit.get("classes", {}).items():
        total["classes"][k] += v
    total["samples"].extend(unit.get("samples", []))
    total["violations"].extend(unit.get("violations", []))
    total["excluded_known"] += int(unit.get("excluded_known", 0))
    total["notes"].extend(unit.get("notes", []))
    total["inconclusive"] += int(unit.get("inconclusive", 0))
    total["stopped_early"] += int(unit.get("stopped_early", 0))
    for k, v in unit.get("extra", {}).items():
        total["extra"].setdefault(k, []).append(v)


def load_known_findings(prop_id: str):
    """Return (active finding keys, fixed lines) for one property from known_findings.txt."""
    active, fixed = {}, []
    path = os.path.join(ROOT, "known_findings.txt")
    if not os.path.exists(path):
        return active, fixed
    with open(path) as fh:
        for line in fh:
            line = line.strip()
            if not line or line.startswith("#"):
                continue
            if line.startswith("finding:") and f"property={prop_id} " in line + " ":
                toks = line.split()
                key = next((t[4:] for t in toks if t.startswith("key=")), None)
                if key:
                    active[key] = line[len("finding:"):].strip()
            elif line.startswith("fixed:") and f"property={prop_id} " in line + " ":
                fixed.append(line)
    return active, fixed


def _run_unit(mod_name, part, seed, shard, nshards, budget):
    t0 = time.time()
    mod = importlib.import_module(mod_name)
    res = mod.run_part(part, seed, shard, nshards, budget)
    res.setdefault("part", part)
    res["unit_wall_s"] = round(time.time() - t0, 2)
    return res


def quansino_path() -> str:
    import quansino

    return os.path.dirname(os.path.abspath(quansino.__file__))


# --------------------------------------------------------------------------- replay
def do_replay(mod, path: str) -> int:
    try:
        with open(path) as fh:
            data = json.load(fh)
        part, case = data["part"], data["case"]
    except Exception:
        traceback.print_exc()
        emit(f"HARNESS-ERROR: cannot read replay file {path}")
        return 2
    from vlib.hyp import guard

    out = guard(lambda c: mod.replay(part, c))(case)
    viol = out.get("violation")
    if viol:
        emit(f"replay {path}: {viol['kind']}: {viol['detail']}")
        active, _ = load_known_findings(mod.ID)
        for key in active:
            if getattr(mod, "KNOWN", {}).get(key, {}).get("match", lambda *a: False)(part, viol["kind"], case):
                emit(f"KNOWN-FINDING: property={mod.ID} key={key} {mod.KNOWN[key]['text']}")
                return 0
        emit(f"VIOLATION property={mod.ID} replay={path}")
        return 1
    emit(f"replay {path}: property held")
    return 0


def _replay_file(mod_name, path):
    mod = importlib.import_module(mod_name)
    with open(path) as fh:
        data = json.load(fh)
    from vlib.hyp import guard

    out = guard(lambda c: mod.replay(data["part"], c))(data["case"])
    viol = out.get("violation")
    return {"path": path, "part": data["part"], "case": data["case"], "expect": data.get("expect", "ok"),
            "violation": jsonable(viol) if viol else None}


def corpus_paths(mod):
    cdir = os.path.join(ROOT, "corpus", mod.ID)
    if not os.path.isdir(cdir):
        return []
    return [os.path.join(cdir, n) for n in sorted(os.listdir(cdir)) if n.endswith(".json")]


def run_corpus(mod, active_known, report, jobs=1, outs=None):
    """Replay committed corpus files first (seconds-long tier): fixed-* (reproductions of repaired defects) and
    seed-* / mut-* (shrunk reproductions of deliberate breakages; all must hold on a correct tree), finding-*
    (must reproduce the listed finding)."""
    cdir = os.path.join(ROOT, "corpus", mod.ID)
    results = {"replayed": 0, "known_reproduced": [], "known_not_reproduced": []}
    if not os.path.isdir(cdir):
        return results
    paths = [os.path.join(cdir, n) for n in sorted(os.listdir(cdir)) if n.endswith(".json")]
    if outs is not None:
        pass  # already replayed by the caller's pool
    elif jobs > 1 and len(paths) > 3:
        ctx = get_context("spawn")
        with ProcessPoolExecutor(max_workers=min(jobs, len(paths)), mp_context=ctx) as pool:
            outs = list(pool.map(_replay_file, [mod.__name__] * len(paths), paths))
    else:
        outs = [_replay_file(mod.__name__, p) for p in paths]
    for o in outs:
        results["replayed"] += 1
        viol = o["violation"]
        expect = o["expect"]
        rel = os.path.relpath(o["path"], ROOT)
        if expect.startswith("known:"):
            key = expect[len("known:"):]
            if viol and key in active_known and mod.KNOWN[key]["match"](o["part"], viol["kind"], o["case"]):
                results["known_reproduced"].append(key)
                report["known"][key] = mod.KNOWN[key]["text"]
            elif viol:
                report["violations"].append({"part": o["part"], "kind": viol["kind"], "detail": viol["detail"],
                                             "case": o["case"], "replay_path": rel})
            else:
                results["known_not_reproduced"].append(key)
        elif viol:
            report["violations"].append({"part": o["part"], "kind": viol["kind"], "detail": viol["detail"],
                                         "case": o["case"], "replay_path": rel})
    return results


# --------------------------------------------------------------------------- main check
def run_check(mod, tier: str, seed: int, jobs: int, only: str | None, scale: float) -> int:
    t0 = time.time()
    active_known, fixed_lines = load_known_findings(mod.ID)
    known_table = getattr(mod, "KNOWN", {})
    for key in active_known:
        if key not in known_table:
            emit(f"HARNESS-ERROR: known_findings.txt lists key={key} unknown to props.{mod.ID.lower()}")
            return 2

    report = {"violations": [], "known": {}}
    corpus = None

    plan = mod.plan(tier)
    units = []
    for entry in plan:
        if only and entry["part"] != only:
            continue
        n = int(entry.get("shards", 1))
        budget = dict(entry.get("budget", {}))
        if scale != 1.0:
            for k in list(budget):
                if k.startswith("n_") and isinstance(budget[k], int):
                    budget[k] = max(1, int(budget[k] * scale))
        budget["tier"] = tier
        budget["known_active"] = sorted(active_known)
        for s in range(n):
            units.append((entry["part"], derive_seed(seed, mod.ID, entry["part"], s), s, n, budget))

    total = empty_result()
    total["nontrivial_keys"] = set()
    total["classes"] = Counter()
    total["extra"] = {}
    per_part = {}
    harness_errors = []

    mod_name = mod.__name__
    if jobs <= 1 or len(units) <= 1:
        corpus = run_corpus(mod, active_known, report, jobs)
        for u in units:
            try:
                res = _run_unit(mod_name, *u)
            except Exception:
                harness_errors.append(traceback.format_exc())
                continue
            merge_into(total, res)
            pp = per_part.setdefault(res["part"], {"evaluations": 0, "units": 0, "wall_s": 0.0})
            pp["evaluations"] += res.get("evaluations", 0)
            pp["units"] += 1
            pp["wall_s"] = round(pp["wall_s"] + res["unit_wall_s"], 2)
    else:
        ctx = get_context("spawn")
        cpaths = corpus_paths(mod)
        with ProcessPoolExecutor(max_workers=min(jobs, len(units) + len(cpaths)), mp_context=ctx) as pool:
            # the corpus (seconds-long replay tier) shares the pool with the generated search
            cfuts = [pool.submit(_replay_file, mod_name, p) for p in cpaths]
            futs = {pool.submit(_run_unit, mod_name, *u): u for u in units}
            try:
                corpus = run_corpus(mod, active_known, report, jobs, outs=[f.result() for f in cfuts])
            except Exception:
                harness_errors.append("corpus replay:\n" + traceback.format_exc())
                corpus = {"replayed": 0, "known_reproduced": [], "known_not_reproduced": []}
            for fut in as_completed(futs):
                try:
                    res = fut.result()
                except Exception:
                    harness_errors.append(f"unit {futs[fut][:3]}:\n" + traceback.format_exc())
                    continue
                merge_into(total, res)
                pp = per_part.setdefault(res["part"], {"evaluations": 0, "units": 0, "wall_s": 0.0})
                pp["evaluations"] += res.get("evaluations", 0)
                pp["units"] += 1
                pp["wall_s"] = round(pp["wall_s"] + res["unit_wall_s"], 2)

    # classify violations against the known-findings file
    for v in total["violations"]:
        key = None
        for k in active_known:
            try:
                if known_table[k]["match"](v["part"], v["kind"], v["case"]):
                    key = k
                    break
            except Exception:
                pass
        if key is not None:
            report["known"][key] = known_table[key]["text"]
        else:
            report["violations"].append(v)

    # de-duplicate violations by (part, kind): one replay file per bucket (first = smallest case text)
    buckets = {}
    for v in report["violations"]:
        b = (v["part"], v["kind"])
        cur = buckets.get(b)
        if cur is None or len(json.dumps(jsonable(v["case"]))) < len(json.dumps(jsonable(cur["case"]))):
            buckets[b] = v

    lines = []
    for key, text in sorted(report["known"].items()):
        lines.append(f"KNOWN-FINDING: property={mod.ID} key={key} {text}")
    replay_paths = []
    for (part, kind), v in sorted(buckets.items()):
        if v.get("replay_path"):
            rel = v["replay_path"]
        else:
            rdir = os.path.join(ROOT, "replays", mod.ID)
            os.makedirs(rdir, exist_ok=True)
            payload = {"property": mod.ID, "part": part, "kind": kind, "detail": v["detail"], "case": jsonable(v["case"])}
            name = case_hash([part, kind, v["case"]]) + ".json"
            with open(os.path.join(rdir, name), "w") as fh:
                json.dump(payload, fh, indent=1, sort_keys=True)
            rel = os.path.join("replays", mod.ID, name)
        replay_paths.append(rel)
        lines.append(f"violation part={part} kind={kind}: {v['detail'][:400]}")
        lines.append(f"VIOLATION property={mod.ID} replay={rel}")

    wall = time.time() - t0
    samples = total["samples"]
    # keep a bounded, varied sample list: prefer one per distinct first label
    seen, picked = set(), []
    for s in samples:
        tag = json.dumps(jsonable(s.get("labels", [])[:2])) if isinstance(s, dict) else ""
        if tag not in seen:
            seen.add(tag)
            picked.append(s)
        if len(picked) >= 10:
            break
    if not picked:
        picked = samples[:5]

    coverage = {
        "evaluations": int(total["evaluations"]),
        "distinct_nontrivial": len(total["nontrivial_keys"]),
        "rule": mod.RULE,
        "samples": jsonable(picked),
        "classes": dict(sorted(total["classes"].items())),
        "excluded_known": int(total["excluded_known"]),
        "inconclusive": int(total["inconclusive"]),
        "stopped_early_units": int(total["stopped_early"]),
        "per_part": per_part,
        "corpus": corpus,
        "known_findings_reported": sorted(report["known"]),
        "fixed_entries": fixed_lines,
        "notes": sorted(set(total["notes"]))[:40],
        "quansino_path": quansino_path(),
        "units": len(units),
    }
    for k, v in total["extra"].items():
        coverage[k] = jsonable(v)
    if getattr(mod, "EXHAUSTIVE_NOTE", None):
        coverage["exhaustive_subdomains"] = mod.EXHAUSTIVE_NOTE
    evidence = {
        "property_id": mod.ID,
        "tier": tier,
        "seed": int(seed),
        "level": mod.LEVEL,
        "coverage": coverage,
        "assumptions": list(mod.ASSUMPTIONS),
        "wall_s": round(wall, 2),
        "violations": len(buckets),
    }
    if not only:
        os.makedirs(os.path.join(ROOT, "evidence"), exist_ok=True)
        with open(os.path.join(ROOT, "evidence", f"{mod.ID}.json"), "w") as fh:
            json.dump(evidence, fh, indent=1, sort_keys=True)
            fh.write("\n")

    emit(f"[{mod.ID}] tier={tier} seed={seed} units={len(units)} evaluations={coverage['evaluations']} "
          f"distinct_nontrivial={coverage['distinct_nontrivial']} wall={wall:.1f}s quansino={coverage['quansino_path']}")
    top = sorted(total["classes"].items(), key=lambda kv: -kv[1])[:25]
    emit(f"[{mod.ID}] classes: " + ", ".join(f"{k}={v}" for k, v in top))
    for line in lines:
        emit(line)

    if harness_errors:
        for e in harness_errors[:3]:
            emit("HARNESS-ERROR:\n" + e)
        return 1 if buckets else 2
    if buckets:
        return 1
    if coverage["evaluations"] < 1 or coverage["distinct_nontrivial"] < 2:
        emit(f"HARNESS-ERROR: vacuous run (evaluations={coverage['evaluations']}, "
              f"distinct_nontrivial={coverage['distinct_nontrivial']})")
        return 2
    return 0


def main(argv) -> int:
    ap = argparse.ArgumentParser(prog="check")
    ap.add_argument("prop")
    ap.add_argument("--tier", choices=["quick", "thorough"], default=None)
    ap.add_argument("--replay", default=None)
    ap.add_argument("--jobs", type=int, default=int(os.environ.get("VERIF_JOBS", "16")))
    ap.add_argument("--only", default=None, help="debug: run a single part (no evidence written)")
    ap.add_argument("--scale", type=float, default=1.0, help="debug: scale the n_* budgets")
    args = ap.parse_args(argv)

    os.chdir(ROOT)
    try:
        mod = importlib.import_module(f"props.{args.prop.lower()}")
    except Exception:
        traceback.print_exc()
        emit(f"HARNESS-ERROR: cannot import props.{args.prop.lower()}")
        return 2
    try:
        seed = int(os.environ.get("VERIF_SEED", "1") or "1")
    except ValueError:
        seed = derive_seed(os.environ.get("VERIF_SEED"))
    tier = args.tier or os.environ.get("VERIF_TIER") or "quick"
    if tier not in ("quick", "thorough"):
        tier = "quick"
    try:
        if args.replay:
            return do_replay(mod, args.replay)
        return run_check(mod, tier, seed, args.jobs, args.only, args.scale)
    except Exception:
        traceback.print_exc()
        emit("HARNESS-ERROR: unexpected exception in the runner")
        return 2
