"""Hypothesis driving helpers: collect-then-shrink search over a case strategy, and the
same for rule-based state machines.

`search(strategy, run_case, ...)`:
  phase 1  generate `n` cases with the seeded Hypothesis engine, execute each through
           `run_case`, record counters / labels / violations WITHOUT raising, so the search
           continues behind a shallow defect and every root cause is bucketed by kind;
  phase 2  for each violation kind found (up to `max_kinds`), re-run the same seeded search
           raising on that kind only, so that Hypothesis shrinks it; shrinking is bounded by a
           call budget (results are cached by case hash, so the final replay of the minimal
           example is consistent and no Flaky error can arise).
Every random choice is made by Hypothesis from the given seed.
"""
from __future__ import annotations

import json
import time

import hypothesis
from hypothesis import HealthCheck, Phase, given, settings

from vlib.runner import case_hash, empty_result, jsonable


class _Hit(Exception):
    pass


def _settings(n, phases):
    return settings(
        max_examples=n,
        database=None,
        deadline=None,
        derandomize=False,
        report_multiple_bugs=False,
        phases=phases,
        suppress_health_check=[HealthCheck.too_slow, HealthCheck.data_too_large, HealthCheck.large_base_example],
        print_blob=False,
    )


class Collector:
    def __init__(self, part, max_samples=6, time_budget=None):
        self.part = part
        self.res = empty_result()
        self.keys = set()
        self.max_samples = max_samples
        self.sample_tags = set()
        self.viol_by_kind = {}
        self.t0 = time.time()
        self.time_budget = time_budget
        self.skipped = 0

    def out_of_time(self):
        return self.time_budget is not None and (time.time() - self.t0) > self.time_budget

    def record(self, case, out):
        r = self.res
        if out.get("discard"):
            r["classes"]["discarded"] = r["classes"].get("discarded", 0) + 1
            return
        r["evaluations"] += int(out.get("weight", 1))
        for lab in out.get("labels", []):
            r["classes"][lab] = r["classes"].get(lab, 0) + 1
        if out.get("inconclusive"):
            r["inconclusive"] += 1
        if out.get("nontrivial"):
            keys = out.get("keys")
            if keys is None:
                keys = [out.get("key") or case_hash(case)]
            self.keys.update(str(k) for k in keys)
        if out.get("excluded_known"):
            r["excluded_known"] += int(out["excluded_known"])
        viol = out.get("violation")
        if viol:
            kind = viol["kind"]
            cur = self.viol_by_kind.get(kind)
            size = len(json.dumps(jsonable(case)))
            if cur is None or size < cur[0]:
                self.viol_by_kind[kind] = (size, {"part": self.part, "kind": kind, "detail": viol["detail"], "case": jsonable(case)})
        tag = tuple(out.get("labels", [])[:2])
        if len(r["samples"]) < self.max_samples and tag not in self.sample_tags and out.get("nontrivial"):
            self.sample_tags.add(tag)
            samp = {"part": self.part, "labels": out.get("labels", []), "case": jsonable(case)}
            if "summary" in out:
                samp["summary"] = jsonable(out["summary"])
            r["samples"].append(samp)

    def finish(self):
        r = self.res
        r["nontrivial_keys"] = sorted(self.keys)
        r["violations"] = [v for _, v in self.viol_by_kind.values()]
        if self.skipped:
            r["stopped_early"] = 1
            r["notes"].append(f"{self.part}: time budget reached, {self.skipped} generated cases not executed (inconclusive, not a violation)")
        return r


def guard(run_case):
    """An exception that escapes a case function is a harness error - unless it was raised inside the code under test
    (innermost frame in the quansino package): the same generated input runs cleanly on a correct tree, so the change
    that makes quansino raise on it is reported as a violation, with the input kept for replay."""
    import traceback as _tb

    def safe(case):
        try:
            return run_case(case)
        except Exception as exc:
            frames = _tb.extract_tb(exc.__traceback__)
            if frames and "/quansino/" in frames[-1].filename.replace("\\", "/"):
                where = f"{frames[-1].filename.split('/quansino/')[-1]}:{frames[-1].lineno}"
                return {"labels": ["raised-inside-quansino"], "nontrivial": True,
                        "violation": {"kind": f"uncaught:{type(exc).__name__}", "detail": f"{type(exc).__name__} raised at quansino/{where}: {str(exc)[:300]}"}}
            raise

    return safe


def search(strategy, run_case, n, seed, part, time_budget=None, shrink_budget=250, max_kinds=2, max_samples=6, shrink=True, skip_zero=False):
    """skip_zero: Hypothesis always starts with the all-simplest example; parts that run only a handful of
    expensive cases (long chains) skip it so that every executed case has randomly drawn parameters."""
    col = Collector(part, max_samples=max_samples, time_budget=time_budget)
    state = {"first": True}
    run_case = guard(run_case)

    @hypothesis.seed(seed)
    @_settings(n + (1 if skip_zero else 0), [Phase.generate])
    @given(strategy)
    def phase1(case):
        if skip_zero and state["first"]:
            state["first"] = False
            return
        if col.out_of_time():
            col.skipped += 1
            return
        out = run_case(case)
        col.record(case, out)

    phase1()
    res = col.finish()

    if shrink and res["violations"]:
        shrunk = []
        for v in sorted(res["violations"], key=lambda v: v["kind"])[:max_kinds]:
            small = shrink_kind(strategy, run_case, n, seed, v["kind"], shrink_budget)
            if small is not None:
                shrunk.append({"part": part, "kind": v["kind"], "detail": small[1], "case": jsonable(small[0])})
            else:
                shrunk.append(v)
        rest = sorted(res["violations"], key=lambda v: v["kind"])[max_kinds:]
        res["violations"] = shrunk + rest
    return res


def shrink_kind(strategy, run_case, n, seed, kind, budget):
    """Re-run the same seeded search raising on `kind` only; bounded shrinking."""
    cache = {}
    state = {"calls_after_hit": 0, "hit": False, "last": None}

    @hypothesis.seed(seed)
    @_settings(n, [Phase.generate, Phase.shrink])
    @given(strategy)
    def phase2(case):
        h = case_hash(case)
        if h in cache:
            bad = cache[h]
        else:
            if state["hit"]:
                state["calls_after_hit"] += 1
                if state["calls_after_hit"] > budget:
                    return  # budget exhausted: unseen candidates are not explored further
            out = run_case(case)
            viol = out.get("violation")
            bad = viol["detail"] if (viol and viol["kind"] == kind) else None
            cache[h] = bad
        if bad is not None:
            state["hit"] = True
            state["last"] = (jsonable(case), bad)
            raise _Hit(bad)

    try:
        phase2()
    except _Hit:
        pass
    except Exception:  # hypothesis wrapper errors (e.g. Flaky) -> keep whatever we have
        pass
    return state["last"]


# ------------------------------------------------------------------ state machines
def run_machine(machine_factory, n, steps, seed, part, time_budget=None, shrink_budget=150, max_kinds=2, max_samples=5, shrink=True):
    """Drive a RuleBasedStateMachine class produced by `machine_factory(sink)`.

    The machine must: append each applied rule to `self.log` (JSON-able), call
    `self.sink.finish(self)` from `teardown`, and on a detected violation call
    `self.fail(kind, detail)` which records it and either marks the machine dead (phase 1)
    or raises (phase 2, when `sink.raise_kind == kind`).
    """
    from hypothesis.stateful import run_state_machine_as_test

    sink = MachineSink(part, max_samples=max_samples, time_budget=time_budget)
    Machine = machine_factory(sink)
    st = settings(
        max_examples=n,
        stateful_step_count=steps,
        database=None,
        deadline=None,
        report_multiple_bugs=False,
        phases=[Phase.generate],
        suppress_health_check=list(HealthCheck),
        print_blob=False,
    )
    run_state_machine_as_test(hypothesis.seed(seed)(Machine), settings=st)
    res = sink.col.finish()

    if shrink and res["violations"]:
        out = []
        for v in sorted(res["violations"], key=lambda v: v["kind"])[:max_kinds]:
            s2 = MachineSink(part, raise_kind=v["kind"], budget=shrink_budget)
            M2 = machine_factory(s2)
            st2 = settings(
                max_examples=n,
                stateful_step_count=steps,
                database=None,
                deadline=None,
                report_multiple_bugs=False,
                phases=[Phase.generate, Phase.shrink],
                suppress_health_check=list(HealthCheck),
                print_blob=False,
            )
            try:
                run_state_machine_as_test(hypothesis.seed(seed)(M2), settings=st2)
            except BaseException:  # the shrunk failure (or a Flaky wrapper): we keep s2.last
                pass
            if s2.last is not None:
                out.append({"part": part, "kind": v["kind"], "detail": s2.last[1], "case": s2.last[0]})
            else:
                out.append(v)
        res["violations"] = out + sorted(res["violations"], key=lambda v: v["kind"])[max_kinds:]
    return res


class MachineSink:
    def __init__(self, part, raise_kind=None, budget=150, max_samples=5, time_budget=None):
        self.part = part
        self.col = Collector(part, max_samples=max_samples, time_budget=time_budget)
        self.raise_kind = raise_kind
        self.budget = budget
        self.calls_after_hit = 0
        self.hit = False
        self.last = None

    # called by the machine
    def exhausted(self):
        """phase 2: True when the shrink budget is spent -> machine should become inert."""
        return self.raise_kind is not None and self.hit and self.calls_after_hit > self.budget

    def on_violation(self, machine, kind, detail):
        case = jsonable(machine.case())
        if self.raise_kind is not None and kind == self.raise_kind:
            self.hit = True
            self.last = (case, detail)
            raise _Hit(detail)

    def finish(self, machine):
        if self.raise_kind is not None:
            if self.hit:
                self.calls_after_hit += 1
            return
        out = machine.outcome()
        self.col.record(machine.case(), out)
